#!/usr/bin/env python3
"""seedimport.py <worktree> <property> "<what>" : copies SEED/{patch.diff,zz_seed_demo_test.go,NOTES.md} of a
sub-agent's scratch worktree to /verif/seeded/<property>-<next letter>/ and removes the worktree."""
import sys, os, shutil, json, subprocess, glob
wt, prop, what = sys.argv[1], sys.argv[2], sys.argv[3]
have = sorted(os.path.basename(d).split("-")[1] for d in glob.glob("/verif/seeded/%s-*" % prop))
letter = chr(ord(have[-1][0]) + 1) if have else "a"
sid = "%s-%s" % (prop, letter)
d = "/verif/seeded/" + sid
os.makedirs(d)
for f in ("patch.diff", "zz_seed_demo_test.go", "NOTES.md"):
    shutil.copy(os.path.join(wt, "SEED", f), os.path.join(d, f))
json.dump(dict(seed=sid, what=what), open(os.path.join(d, "meta.json"), "w"), indent=1)
subprocess.run(["git", "-C", "/repo", "worktree", "remove", "--force", wt])
print(sid)
