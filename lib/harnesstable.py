#!/usr/bin/env python3
"""Prints / updates the table of registered harnesses in DESIGN.md (section 0.6) from lib/props.py."""
import sys, re, io, os
sys.path.insert(0, os.path.dirname(__file__))
import props

DOC = {}
# first sentence of each harness's doc comment
for root, _, files in os.walk("/verif/harness"):
    for f in files:
        if f.endswith(".go"):
            src = open(os.path.join(root, f)).read()
            for m in re.finditer(r"((?://[^\n]*\n)+)func (Verif\w+)\(\)", src):
                text = " ".join(l.lstrip("/ ").strip() for l in m.group(1).strip().split("\n"))
                text = re.sub(r"^Verif\w+\s*(\([^)]*\))?:\s*", "", text)
                DOC[m.group(2)] = text

def fmt(d):
    return ", ".join("%s=%s" % (k, v) for k, v in (d or {}).items() if not k.startswith("native_")) or "—"

buf = io.StringIO()
buf.write("| property | harness (entry point in the overlay) | what it runs | quick bounds | thorough bounds |\n|---|---|---|---|---|\n")
for pid in sorted(props.PROPS):
    for h in props.PROPS[pid]["harnesses"]:
        fn = h["run"].split(".")[-1]
        name = h.get("name")
        label = "`%s`" % h["run"] + (" as %s" % name if name else "")
        flags = [k for k in ("race", "race_replay", "no_native") if h.get(k)]
        if h.get("stress"):
            flags.append("stress=%d" % h["stress"])
        doc = DOC.get(fn, "")
        if len(doc) > 420:
            doc = doc[:417] + "..."
        buf.write("| %s | %s%s | %s | %s | %s |\n" % (pid, label, (" [" + ", ".join(flags) + "]") if flags else "", doc, fmt(h.get("quick")), fmt(h.get("thorough"))))

if len(sys.argv) > 1 and sys.argv[1] == "--update":
    d = open("/verif/DESIGN.md").read()
    d = re.sub(r"<!-- harnesstable:begin -->.*?<!-- harnesstable:end -->", lambda m: "<!-- harnesstable:begin -->\n" + buf.getvalue() + "<!-- harnesstable:end -->", d, flags=re.S)
    open("/verif/DESIGN.md", "w").write(d)
else:
    print(buf.getvalue(), end="")
