import json,sys,subprocess,os
batch=sys.argv[1]; ids=sys.argv[2:]
props={json.loads(l)['id']:json.loads(l) for l in open('/verif/properties.jsonl')}
hints={}
for i in ids:
    p=props[i]
    wt="/tmp/seed-%s%s"%(i,batch)
    subprocess.run(["git","-C","/repo","worktree","remove","--force",wt],capture_output=True)
    r=subprocess.run(["git","-C","/repo","worktree","add","--detach",wt,"HEAD"],capture_output=True,text=True)
    assert r.returncode==0, r.stderr
    text=json.dumps({k:p[k] for k in ("id","title","statement","quantifier","why_tests_cant","anchors")},indent=1)
    import glob
    tried=[]
    for mf in sorted(glob.glob("/verif/seeded/*/meta.json")):
        m=json.load(open(mf))
        if m.get("what") and (m.get("seed","").startswith(i) or i in (m.get("property") or "")):
            tried.append("- "+m["what"])
    # mechanisms tried for any property that recur
    tried_txt="\n".join(tried)
    prompt=f"""You are helping to evaluate a verification effort for the Go project KubeBrain (r0ck3rt/kubebrain: an etcd-compatible, stateless MVCC metadata layer for Kubernetes on pluggable KV engines). Your own private git worktree of the project is at {wt} . Work ONLY inside that directory (never read or touch /repo, /verif or any other /tmp/seed-* directory; they are off limits and reading them would spoil the experiment).

Every shell call needs: export GOFLAGS=-mod=mod GOPROXY=off GOSUMDB=off GOTOOLCHAIN=local   (there is no network; nothing can be fetched).

Here is one semantic property the project is supposed to satisfy:

{text}

TASK: produce ONE realistic change to the project's (non-test) source that BREAKS this property, while the project still compiles (go build ./...) and the whole existing test suite still passes:  go test -vet=off -count=1 -timeout 25m ./pkg/...   (pkg/util TestGetHost fails offline on the unchanged tree as well; ignore that one; if a package fails because port 2379/2380 is busy, just re-run that package).

The change must look like something a maintainer could plausibly commit (a refactoring, an "optimisation", a tidy-up, a reordered statement, a mis-merged condition, ...), not sabotage, and it must be SUBTLE: it must need something specific to manifest - a particular interleaving of goroutines, a crash or storage fault at a particular point, a multi-step sequence of operations, an unusual input or configuration, or two cooperating sites that each look fine alone. A change that ordinary use (a plain create/update/get/list/watch by one client) would expose at once is NOT wanted. Prefer a mechanism different from the obvious first idea; think about which part of the property's statement and quantifier is least likely to be covered by a verifier and aim there. Earlier rounds of this experiment already produced the following changes for this property; yours must use a DIFFERENT mechanism and a different site (do not produce a variant of any of these, and in particular not an in-place filter / shared slice in the watch fan-out, and not a change to adjustPartitionsBorders):
{tried_txt}

Do not just revert a recent commit (look at git log: commits starting "fix:" repaired earlier defects; reverting one of those is not interesting), and do not touch *_test.go files of the project.

Deliver, in the directory {wt}/SEED/ :
 1. patch.diff  - the change, as produced by `git diff` in the worktree (source files only; must apply with `git apply` to a clean checkout of the worktree's HEAD).
 2. zz_seed_demo_test.go - a demonstration: an in-package Go test file (say which package directory it belongs to; it will be copied there as zz_seed_demo_test.go) that FAILS with your change applied and PASSES on the unchanged tree, deterministically (or with overwhelming probability; say how many runs you tried). It may use the project's in-memory engine (pkg/storage/memkv), Badger in t.TempDir(), or the mock TiKV cluster the project's own tests use, fault-injecting wrappers around storage.KvStorage written inside the test file, goroutines, etc.
 3. NOTES.md - what the change is, which clause of the property it breaks, what it needs in order to manifest, the package directory of the demo and the exact go test command, and the observed outputs with and without the change.

Verify all of it yourself before finishing: demo passes without the patch, fails with it; go build ./... works; full suite passes with the patch (demo file moved aside). Leave the worktree with the patch APPLIED and the SEED directory filled. Your final answer should be a 5-10 line summary (file(s) changed, mechanism, trigger, demo package and test name)."""
    open(f"/tmp/seedprompts/{i}{batch}.txt","w").write(prompt)
    print(i,wt)
