#!/usr/bin/env python3
"""seedrun.py <seed-id> [check ids...]

Confirms a seeded change in a scratch worktree of /repo (outside /repo and /verif): the patch
applies, the demonstration fails with it and passes without it, the existing suite passes with
it; then runs the named checks (default: the seed's own property) against the changed tree and
records everything in /verif/seeded/<seed-id>/meta.json. The worktree is removed afterwards.
"""
import sys, os, re, json, subprocess, shutil, time

ROOT = "/verif"
GOENV = dict(os.environ, GOFLAGS="-mod=mod", GOPROXY="off", GOSUMDB="off", GOTOOLCHAIN="local")


def sh(cmd, cwd=None, env=None, timeout=3600):
    p = subprocess.run(cmd, cwd=cwd, env=env or GOENV, capture_output=True, text=True, errors="replace", timeout=timeout, shell=isinstance(cmd, str))
    return p.returncode, p.stdout + p.stderr


def main():
    sid = sys.argv[1]
    checks = sys.argv[2:]
    sdir = os.path.join(ROOT, "seeded", sid)
    prop = sid.split("-")[0][:3]
    if not checks:
        checks = [prop]
    wt = "/tmp/seedcheck-" + sid
    sh(["git", "-C", "/repo", "worktree", "remove", "--force", wt])
    # the change was written against /repo as it was then: use the newest of the last commits it applies to
    base = "HEAD"
    for cand in sh(["git", "-C", "/repo", "rev-list", "-n", "10", "HEAD"])[1].split():
        sh(["git", "-C", "/repo", "worktree", "remove", "--force", wt])
        sh(["git", "-C", "/repo", "worktree", "add", "--detach", wt, cand])
        if sh(["git", "apply", "--check", os.path.join(sdir, "patch.diff")], cwd=wt)[0] == 0:
            base = cand
            break
    sh(["git", "-C", "/repo", "worktree", "remove", "--force", wt])
    rc, out = sh(["git", "-C", "/repo", "worktree", "add", "--detach", wt, base])
    meta = dict(seed=sid, property=prop, base=sh(["git", "-C", "/repo", "rev-parse", base])[1].strip(), ran=[])
    old = {}
    mf = os.path.join(sdir, "meta.json")
    if os.path.exists(mf):
        old = json.load(open(mf))
        for k in ("needs", "what", "source"):
            if k in old:
                meta[k] = old[k]
    try:
        notes = open(os.path.join(sdir, "NOTES.md")).read() if os.path.exists(os.path.join(sdir, "NOTES.md")) else ""
        # where does the demo live, and what is the test called?
        demo = os.path.join(sdir, "zz_seed_demo_test.go")
        src = open(demo).read()
        pkg = re.search(r"^package (\w+)", src, re.M).group(1)
        tests = re.findall(r"^func (Test\w+)\(", src, re.M)
        m = re.search(r"(\./)?(pkg/[\w/]+?)/?(\s|`|'|\"|$)", " ".join(re.findall(r"go test[^\n]*", notes)))
        pkgdir = m.group(2) if m else None
        if not pkgdir:
            cands = [d for d, _, fs in os.walk(os.path.join(wt, "pkg")) for f in fs if f.endswith(".go") and re.search(r"^package %s\b" % pkg, open(os.path.join(d, f)).read(), re.M)]
            pkgdir = os.path.relpath(cands[0], wt) if cands else None
        meta["demo_pkg"], meta["demo_tests"] = pkgdir, tests
        shutil.copy(demo, os.path.join(wt, pkgdir, "zz_seed_demo_test.go"))
        runre = "^(" + "|".join(tests) + ")$"
        # without the change
        rc0, out0 = sh(["go", "test", "-vet=off", "-count=1", "-timeout", "10m", "-run", runre, "./" + pkgdir], cwd=wt)
        meta["demo_without_patch"] = "pass" if rc0 == 0 else "FAIL"
        # apply
        rca, outa = sh(["git", "apply", os.path.join(sdir, "patch.diff")], cwd=wt)
        if rca != 0:
            rca, outa = sh(["git", "apply", "-3", os.path.join(sdir, "patch.diff")], cwd=wt)
        meta["patch_applies"] = rca == 0
        if rca != 0:
            # the change was made against an earlier commit and the lines it touches were repaired since:
            # keep the results recorded at its own base, note that it no longer applies
            keep = dict(old)
            keep["no_longer_applies_on"] = meta["base"]
            keep["apply_error"] = outa[-300:]
            meta.clear()
            meta.update(keep)
            return meta
        rcb, outb = sh(["go", "build", "./..."], cwd=wt)
        meta["builds"] = rcb == 0
        rc1, out1 = sh(["go", "test", "-vet=off", "-count=1", "-timeout", "10m", "-run", runre, "./" + pkgdir], cwd=wt)
        meta["demo_with_patch"] = "fail" if rc1 != 0 else "PASS (does not demonstrate)"
        meta["demo_failure_excerpt"] = "\n".join([l for l in out1.split("\n") if "Error" in l or "FAIL" in l or "expected" in l][:8])
        # existing suite with the change (demo moved aside)
        os.remove(os.path.join(wt, pkgdir, "zz_seed_demo_test.go"))
        rcs, outs = sh("go test -vet=off -count=1 -timeout 20m ./pkg/... 2>&1 | grep -v 'no test files'", cwd=wt)
        failed = [m.group(1) for m in re.finditer(r"^FAIL\s+(github\.com/\S+)", outs, re.M) if not m.group(1).endswith("/pkg/util")]
        still = []
        for fp in failed:  # fixed ports 2379/2380 clash with suites run by others at the same time: retry alone
            ok = False
            for _ in range(3):
                rr, oo = sh(["go", "test", "-vet=off", "-count=1", "-timeout", "20m", fp], cwd=wt)
                if rr == 0:
                    ok = True
                    break
                time.sleep(5)
            if not ok:
                still.append(fp)
        meta["suite_with_patch"] = "pass (pkg/util TestGetHost fails offline on the unchanged tree too)" if not still else "FAIL: " + "; ".join(still)
        # my checks against the changed tree
        env = dict(GOENV, VERIF_REPO=wt, VERIF_EVIDENCE_DIR="/tmp/seed-evidence-" + sid)
        res = {}
        for c in checks:
            t0 = time.time()
            rcc, outc = sh([os.path.join(ROOT, "check"), c, "--tier", "quick"], cwd=ROOT, env=env, timeout=7200)
            lines = [l for l in outc.split("\n") if l.startswith(("VIOLATION", "ERROR", "KNOWN", "OK", "  harness"))]
            res[c] = dict(exit=rcc, wall_s=round(time.time() - t0), lines=lines[:8])
            meta["ran"].append("VERIF_REPO=%s ./check %s --tier quick -> exit %d" % (wt, c, rcc))
        meta["checks"] = res
        meta["caught_by"] = [c for c, r in res.items() if r["exit"] == 1]
        meta["alarm_without_violation_line"] = [c for c, r in res.items() if r["exit"] == 2]
        return meta
    finally:
        json.dump(meta, open(mf, "w"), indent=1)
        sh(["git", "-C", "/repo", "worktree", "remove", "--force", wt])
        shutil.rmtree("/tmp/seed-evidence-" + sid, ignore_errors=True)
        # restore evidence files of the unchanged tree are rewritten by the next ./check run
        print(json.dumps({k: meta.get(k) for k in ("seed", "patch_applies", "demo_without_patch", "demo_with_patch", "suite_with_patch", "caught_by", "alarm_without_violation_line")}, indent=1))


if __name__ == "__main__":
    main()
