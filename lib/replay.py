"""Native replay of gosym paths against the real build (go test -overlay, nothing written to /repo)."""
import json, os, subprocess, tempfile, hashlib, re, shutil

REPO = os.environ.get("VERIF_REPO", "/repo")
HARNESS = "/verif/harness"
GOENV = dict(os.environ, GOFLAGS="-mod=mod", GOPROXY="off", GOSUMDB="off", GOTOOLCHAIN="local")
MOD = "github.com/kubewharf/kubebrain"

def harness_files():
    out = {}
    for root, _, files in os.walk(HARNESS):
        for f in files:
            if f.endswith(".go"):
                real = os.path.join(root, f)
                rel = os.path.relpath(real, HARNESS)
                out[os.path.join(REPO, rel)] = real
    return out

def harness_funcs(pkgdir):
    """exported Verif* functions defined in harness files of a package dir (relative to module root)"""
    names = []
    d = os.path.join(HARNESS, pkgdir)
    for f in sorted(os.listdir(d)):
        if f.endswith(".go") and not f.endswith("_test.go"):
            src = open(os.path.join(d, f)).read()
            names += re.findall(r"^func (Verif\w+)\(\)", src, re.M)
    return names

def pkg_name(pkgdir):
    d = os.path.join(HARNESS, pkgdir)
    for f in sorted(os.listdir(d)):
        if f.endswith(".go"):
            m = re.search(r"^package (\w+)", open(os.path.join(d, f)).read(), re.M)
            if m:
                return m.group(1)
    raise RuntimeError("no package clause in " + d)

class Replayer:
    """Builds one test binary per package (lazily) and runs harnesses natively."""
    def __init__(self, workdir=None):
        self.work = workdir or tempfile.mkdtemp(prefix="verif-replay-")
        self.bins = {}
        self.build_log = {}

    def close(self):
        shutil.rmtree(self.work, ignore_errors=True)

    def binary(self, pkgdir, race=False):
        key = (pkgdir, race)
        if key in self.bins:
            return self.bins[key]
        names = harness_funcs(pkgdir)
        pkg = pkg_name(pkgdir)
        test = os.path.join(self.work, pkgdir.replace("/", "_") + "_replay_test.go")
        with open(test, "w") as f:
            f.write("//go:build verif\n\npackage %s\n\nimport (\n\t\"os\"\n\t\"testing\"\n\n\t\"%s/pkg/zzverif\"\n)\n\n" % (pkg, MOD))
            f.write("func TestVerifReplay(t *testing.T) {\n\tfns := map[string]func(){\n")
            for n in names:
                f.write("\t\t\"%s\": %s,\n" % (n, n))
            f.write("\t}\n\tf := fns[os.Getenv(\"VERIF_HARNESS\")]\n\tif f == nil {\n\t\tt.Fatal(\"unknown harness\")\n\t}\n")
            f.write("\tzzverif.PrintOutcome(zzverif.RunNative(f))\n}\n")
        ov = harness_files()
        ov[os.path.join(REPO, pkgdir, "zz_verif_replay_test.go")] = test
        ovf = os.path.join(self.work, "overlay_%s.json" % pkgdir.replace("/", "_"))
        json.dump({"Replace": ov}, open(ovf, "w"))
        out = os.path.join(self.work, pkgdir.replace("/", "_") + (".race" if race else "") + ".test")
        cmd = ["go", "test", "-c", "-vet=off", "-tags", "verif", "-overlay", ovf, "-o", out]
        if race:
            cmd.append("-race")
        cmd.append("./" + pkgdir)
        p = subprocess.run(cmd, cwd=REPO, env=GOENV, capture_output=True, text=True, errors="replace")
        self.build_log[key] = p.stdout + p.stderr
        if p.returncode != 0:
            raise RuntimeError("native build of %s failed:\n%s" % (pkgdir, p.stdout + p.stderr))
        self.bins[key] = out
        return out

    def run(self, pkgdir, harness, model, choices, params, timeout=120, race=False, extra_env=None, schedule=None):
        """returns dict(end=, label=, observed=[...], raw=str)"""
        b = self.binary(pkgdir, race)
        rf = os.path.join(self.work, "replay_%s.json" % hashlib.sha1(json.dumps([harness, model, choices, params], sort_keys=True).encode()).hexdigest()[:12])
        json.dump({"model": model, "choices": choices, "params": params, "schedule": schedule or []}, open(rf, "w"))
        env = dict(GOENV, VERIF_REPLAY=rf, VERIF_HARNESS=harness)
        if extra_env:
            env.update(extra_env)
        try:
            p = subprocess.run([b, "-test.run", "^TestVerifReplay$", "-test.count=1", "-test.timeout", "%ds" % timeout],
                               cwd=(os.path.join(REPO, pkgdir) if os.path.isdir(os.path.join(REPO, pkgdir)) else REPO), env=env, capture_output=True, text=True, errors="replace", timeout=timeout + 30)
            raw = p.stdout + p.stderr
        except subprocess.TimeoutExpired as e:
            return {"end": "timeout", "label": "", "observed": [], "raw": str(e)}
        m = re.search(r"^VERIF-OUTCOME (.*)$", raw, re.M)
        if not m:
            # a crash outside RunNative's recover (e.g. panic in another goroutine, data race report)
            lab = "crash"
            mm = re.search(r"^panic: (.*)$", raw, re.M)
            if mm:
                lab = mm.group(1)
            if "WARNING: DATA RACE" in raw:
                lab = "DATA RACE"
            ma = re.search(r"^VERIF-ASSERT-FAILED (.*)$", raw, re.M)
            if ma and "AssertFailure" in raw:
                # a harness assertion failed in a goroutine other than the harness's own
                return {"end": "assert", "label": ma.group(1).strip(), "observed": [], "raw": raw[-4000:]}
            if lab.startswith("test timed out"):
                # the native harness never finished: go test's own deadline fired
                return {"end": "timeout", "label": lab, "observed": [], "raw": raw[-4000:]}
            return {"end": "crash", "label": lab, "observed": [], "raw": raw[-4000:]}
        o = json.loads(m.group(1))
        o["raw"] = raw[-3000:]
        if "WARNING: DATA RACE" in raw:
            o["race"] = True
        return o

if __name__ == "__main__":
    import sys
    rep = json.load(open(sys.argv[1]))["reports"][int(sys.argv[2]) if len(sys.argv) > 3 else 0]
    vi = int(sys.argv[-1])
    v = rep["Violations"][vi]
    h = rep["Harness"]
    pkgdir, fn = h[len(MOD) + 1:].rsplit(".", 1)
    r = Replayer()
    o = r.run(pkgdir, fn, v["model"], v.get("choices") or {}, rep.get("Params") or {}, schedule=v.get("schedule"))
    print(json.dumps({k: o[k] for k in o if k != "raw"}, indent=1))
    print(o["raw"][-1500:])
    r.close()
