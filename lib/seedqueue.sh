#!/bin/bash
# processes lines "<seed> [checks...]" appended to /tmp/seedqueue, sequentially
touch /tmp/seedqueue /tmp/seedqueue.done
while true; do
  n=$(wc -l < /tmp/seedqueue.done); line=$(sed -n "$((n+1))p" /tmp/seedqueue)
  if [ -z "$line" ]; then sleep 20; continue; fi
  set -- $line
  (cd /verif && python3 lib/seedrun.py "$@" > /tmp/seedlogs/$1.log 2>&1)
  echo "$line" >> /tmp/seedqueue.done
done
