#!/usr/bin/env python3
"""Prints the markdown table of seeded changes (seeded/<id>/meta.json) for DESIGN.md."""
import json, glob, os
NOTES = {
    "C08-a": "no longer a violation since fix 354c67d (the record is checked again after the scan): the demonstration passes on the repaired tree",
    "C08-b": "no longer a violation since fix 354c67d (the record is checked again after the scan): the demonstration passes on the repaired tree",
}
import io, sys, re
buf = io.StringIO()
_print = print
def print(*a):
    _print(*a, file=buf)
print("| seed | change | demo fails / suite passes | caught by (quick tier) | note |")
print("|---|---|---|---|---|")
for d in sorted(glob.glob("/verif/seeded/*")):
    mf = os.path.join(d, "meta.json")
    if not os.path.exists(mf):
        continue
    m = json.load(open(mf))
    sid = os.path.basename(d)
    ok = "yes / yes" if m.get("demo_with_patch") == "fail" and str(m.get("suite_with_patch", "")).startswith("pass") else "%s / %s" % (m.get("demo_with_patch"), m.get("suite_with_patch"))
    caught = ", ".join(m.get("caught_by") or []) or "—"
    extra = m.get("alarm_without_violation_line") or []
    note = NOTES.get(sid, "")
    if extra:
        note += " exit 2 (inconclusive) from: " + ", ".join(extra)
    if m.get("no_longer_applies_on"):
        note += " results recorded at commit %s; the lines it touches were repaired since, the patch no longer applies on %s" % (str(m.get("base", ""))[:7], str(m["no_longer_applies_on"])[:7])
    print("| %s | %s | %s | %s | %s |" % (sid, m.get("what", ""), ok, caught, note.strip()))

if len(sys.argv) > 1 and sys.argv[1] == "--update":
    d = open("/verif/DESIGN.md").read()
    d = re.sub(r"<!-- seedtable:begin -->.*?<!-- seedtable:end -->", lambda m: "<!-- seedtable:begin -->\n" + buf.getvalue() + "<!-- seedtable:end -->", d, flags=re.S)
    open("/verif/DESIGN.md", "w").write(d)
else:
    _print(buf.getvalue(), end="")
