#!/usr/bin/env python3
"""Regenerates /verif/MANIFEST.json from lib/props.py (claimed checks) and lib/meta.py."""
import json, os, sys
ROOT = os.path.dirname(os.path.dirname(os.path.abspath(__file__)))
sys.path.insert(0, os.path.join(ROOT, "lib"))
from props import PROPS
from meta import META, NA, HOOK_COMMITS

ids = ["C%02d" % i for i in range(1, 21)]
checks = []
for pid in ids:
    if pid not in PROPS or pid in NA:
        continue
    m = META[pid]
    checks.append(dict(
        property_id=pid,
        quick_cmd="./check %s --tier quick" % pid,
        thorough_cmd="./check %s --tier thorough" % pid,
        evidence_file="/verif/evidence/%s.json" % pid,
        replay_cmd_template="./check %s --replay {path}" % pid,
        engine="gosym",
        level_claimed=dict(category="model_checking", text=m["text"], design_ref=m.get("ref", "DESIGN.md section 5, " + pid)),
        level_note=m["note"],
        technique=m.get("technique", "bounded symbolic execution of the real Go SSA (gosym) with z3 deciding every branch and assertion; counterexamples replayed natively"),
    ))
na = []
for pid in ids:
    if pid in NA:
        na.append(dict(property_id=pid, reason=NA[pid]))
    elif pid not in PROPS:
        na.append(dict(property_id=pid, reason="check not built yet (construction in progress; see DESIGN.md section 8)"))
man = dict(
    version=1,
    setup_cmd="cd /verif/engine && GOFLAGS=-mod=mod GOPROXY=off GOSUMDB=off GOTOOLCHAIN=local go build -o /verif/bin/gosym ./cmd/gosym",
    hooks=dict(guard="verif", enable="-tags verif (harnesses are injected by overlay; see DESIGN.md section 6)",
               baseline_off_cmd="cd /repo && GOFLAGS=-mod=mod GOPROXY=off GOSUMDB=off go test -vet=off -count=1 -timeout 25m ./...",
               source_commits=HOOK_COMMITS, add_only=True),
    engines=[dict(name="gosym", path="/verif/engine", serves_properties=[c["property_id"] for c in checks],
                  kind_free_text="symbolic executor for Go SSA (go/ssa from x/tools v0.29.0) written for this task: decision-replay path exploration, baton thread scheduler, SMT-LIB2 bit-vector encoding, persistent z3 -in processes; native replay of every counterexample via go test -overlay")],
    checks=checks,
    notes="All harnesses, models and the zzverif API live under /verif/harness and are injected into /repo by overlay at check time; nothing but fix: commits is committed to /repo. Exit code 2 = no verdict (machinery error), never reported as success.",
    not_applicable=na,
)
json.dump(man, open(os.path.join(ROOT, "MANIFEST.json"), "w"), indent=1)
print("claimed:", [c["property_id"] for c in checks])
