"""Property table: which harnesses decide which property, with the bounds of each tier."""

B = "pkg/backend."
C = "pkg/backend/coder."

PROPS = {
    "C10": dict(
        harnesses=[
            dict(run=C + "VerifC10Roundtrip", quick=dict(keylen=4), thorough=dict(keylen=6), covers=["empty", "nonempty"]),
            dict(run=C + "VerifC10Order", quick=dict(keylen=4), thorough=dict(keylen=6), covers=["same-length", "shorter-first"]),
            dict(run=C + "VerifC10Range", quick=dict(keylen=3), thorough=dict(keylen=5), covers=["range"]),
            dict(run=C + "VerifC10ParseRevision", covers=["parsed", "rejected"]),
            dict(run=C + "VerifC10DecodeSafe", quick=dict(keylen=4), thorough=dict(keylen=6), covers=["accepted", "rejected"]),
            dict(run=B + "VerifC10Prefix", quick=dict(keylen=3), thorough=dict(keylen=4), covers=["prefix", "no-prefix-end"]),
        ] + [
            # thorough tier: the same queries decided by two more solvers; the explorations must agree
            dict(run=C + h, name="%s_%s" % (h, sv.replace("-", "")), thorough=th, solver=sv, tiers=["thorough"], validate=0)
            for sv in ("z3-new", "cvc5")
            for h, th in (("VerifC10Roundtrip", dict(keylen=6)), ("VerifC10Order", dict(keylen=6)), ("VerifC10Range", dict(keylen=5)),
                          ("VerifC10ParseRevision", {}), ("VerifC10DecodeSafe", dict(keylen=6)))
        ],
        bounds=dict(quick="raw keys of every length 0..4 (range clause 0..3, prefix clause 0..3), all 256 byte values for the round-trip, bytes > '$' for ordering; 64-bit revisions fully symbolic",
                    thorough="raw keys of every length 0..6 (range clause 0..5, prefix clause 0..4); 64-bit revisions fully symbolic"),
        outside="keys longer than the stated lengths (no inductive argument attempted)",
        assumptions=["ordering clauses assume the documented alphabet (every byte > '$')"],
    ),
    "C03": dict(
        harnesses=[
            # thorough tier: one stateful harness decided by three solvers; the explorations must agree
            dict(run=B + "VerifC03Get", name="C03Get_" + sv.replace("-", ""), thorough=dict(ops=2, keys=2), tiers=["thorough"], validate=0,
                 **({"solver": sv} if sv != "z3" else {}))
            for sv in ("z3", "z3-new", "cvc5")
        ] + [
            dict(run=B + "VerifC03Get", quick=dict(ops=2, keys=2), thorough=dict(ops=3, keys=2), covers=["get-present", "get-absent", "update-ok", "delete-ok", "create-refused", "done"]),
            dict(run=B + "VerifC03List", quick=dict(ops=2, keys=2), thorough=dict(ops=2, keys=3), covers=["list-cut", "list-multi", "done"]),
            dict(run=B + "VerifC03SymKeys", quick=dict(ops=1, val9=0), thorough=dict(ops=2, val9=0), covers=["one-name-prefix-of-the-other", "get-present", "done"]),
            dict(run=B + "VerifC03Again", quick=dict(ops=1, keys=2), thorough=dict(ops=2, keys=2), covers=["done"]),
            dict(run=B + "VerifC03Count", quick=dict(ops=2, keys=2), thorough=dict(ops=3, keys=2), covers=["done"]),
            dict(run=B + "VerifInductiveStep", name="C03_inductive", quick=dict(val9=0, maxversions=2, stepkind=0), thorough=dict(val9=0, maxversions=3, stepkind=0),
                 covers=["get-present", "get-absent", "compacted", "done"]),
        ],
        bounds=dict(quick="histories of 2 symbolic writes (+1 further write) over 2 prefix-related names; values of 1 or 9 symbolic bytes; expected revisions unconstrained 64-bit; read revision symbolic in [first, committed] or 0; 5 ranges; limits 0..n+1; revision base 5; the same reads after 1 write on two keys whose names are symbolic (1 and 2 bytes over the alphabet: equal, prefix-related, on either side of every range bound); reads at every revision from the floor up after one arbitrary step from an arbitrary invariant-satisfying state of one key (0..2 versions)",
                    thorough="histories of 3 writes over 2 names (get, count), 2 writes over 3 names (list), 2 writes + 1 further write (re-read); the inductive step over 0..3 versions; one stateful harness (point reads after 2-write histories) decided by z3 4.8.12, z3 5.1 and cvc5 — the three explorations must agree"),
        outside="reads below the compaction floor (C08); engines' own snapshot isolation (C11); key names other than the fixed prefix-related set and the two symbolic names (1 and 2 arbitrary bytes of the alphabet under the prefix)",
        assumptions=["storage engine honours the documented KvStorage contract (model store zzmodel.Store; adapters checked in C11)"],
    ),
    "C01": dict(
        harnesses=[
            dict(run=B + "VerifC01Race", quick=dict(ops=1, keys=1, val9=0, preempt=1), thorough=dict(ops=1, keys=1, val9=0, preempt=2),
                 covers=["both-succeed", "one-loses", "done"]),
            dict(run=B + "VerifC01Race", name="C01_scenarios", quick=dict(scenario=1, keys=1, val9=0, preempt=1), thorough=dict(scenario=1, keys=1, val9=0, preempt=2),
                 covers=["both-succeed", "one-loses", "done"]),
            dict(run=B + "VerifInductiveStep", name="C01_inductive", quick=dict(val9=0, maxversions=2, stepkind=1), thorough=dict(val9=0, maxversions=3, stepkind=1),
                 covers=["create-ok", "create-refused", "update-ok", "update-refused", "delete-ok", "delete-refused", "index-absent-over-deletion-mark", "done"]),
            dict(run=B + "VerifC01Seq", quick=dict(ops=3, keys=1, val9=0), thorough=dict(ops=3, keys=2, val9=0), covers=["create-ok", "create-refused", "update-ok", "update-refused", "delete-ok", "delete-refused", "delete-absent", "done"]),
            dict(run=B + "VerifC01Seq", name="C01_seq4", thorough=dict(ops=4, keys=1, val9=0), tiers=["thorough"], covers=["done"]),
            dict(run=B + "VerifC01Race", name="C01_three", thorough=dict(clients=3, scenario=1, keys=1, val9=0, preempt=1), tiers=["thorough"], covers=["one-loses", "done"]),
        ],
        bounds=dict(quick="2 concurrent clients on 1 key after a 1-write history (initial states: never existed, live, deleted), every interleaving of their store operations and revision dealing with at most 1 preemption; sequential histories of 3 writes; expected revisions unconstrained 64-bit; both conflict-reporting styles of the engine contract; the same two clients after fixed key histories (deleted with the mark present, two versions, deleted and re-created); one write from an arbitrary store state of one key satisfying the representation invariant (0..2 versions with symbolic revisions, deletion marks, every allowed form of the index record, any compaction record), invariant re-established (inductive step)",
                    thorough="the quick harnesses with 2 scheduling deviations for both races; the inductive step over 0..3 versions; sequential histories of 3 writes over 2 keys and of 4 writes over 1 key"),
        outside="engines' own transaction isolation (assumed by the contract store; adapters in C11); unknown-outcome faults (C09); more than 2 concurrent clients in the quick tier, more than 3 in the thorough tier (3 clients after fixed key histories, 1 scheduling deviation); deleted-and-compacted initial state is covered by C07's after-compaction write",
        assumptions=["an unguarded delete (expected revision 0) is executed as 'delete the version I read'; its failure is accepted when a concurrent write to the key succeeded while it was in flight"],
    ),
    "C05": dict(
        harnesses=[
            dict(run=B + "VerifC05Watch", quick=dict(ops=2, keys=1, val9=0, cache=2, later=1, newleader=1), thorough=dict(ops=2, keys=2, val9=0, cache=2, later=1, newleader=1),
                 covers=["events-delivered", "several-events", "refused", "catch-up-from-cache", "new-leader", "done"]),
            dict(run=B + "VerifC05Ring", quick=dict(maxsize=3), thorough=dict(maxsize=5), covers=["wrapped", "found", "low", "high", "empty"]),
            dict(run=B + "VerifC05Handover", quick=dict(before=1, during=1, preempt=1), thorough=dict(before=1, during=2, preempt=2), covers=["events-delivered", "done"], stress=60),
            dict(run=B + "VerifC05PublishHeld", quick=dict(before=1, cache=8), thorough=dict(before=2, cache=2), covers=["events-delivered", "refused", "done"], stress=5),
            dict(run=B + "VerifC05Publish", quick=dict(before=1, pending=1, preempt=2), thorough=dict(before=1, pending=2, preempt=3), covers=["events-delivered", "refused", "done"], stress=4),
            dict(run=B + "VerifC05SlowConsumer", quick=dict(batches=5, reads=4, preempt=2), thorough=dict(batches=6, reads=5, preempt=3), covers=["closed-for-slow-consumer", "several-delivered", "done"], stress=200),
            dict(run=B + "VerifC05Fanout", quick=dict(watches=3, events=3), thorough=dict(watches=3, events=5), covers=["several-matching", "some-filtered", "done"]),
        ],
        bounds=dict(quick="sequential client: 2-write history, watch from a symbolic start revision (0, below/inside/at/above the cached window) on 4 prefixes, 1 further write, event cache of 2 entries (wraps), optionally served by a node that has just taken over (empty cache); fan-out: 3 watches on different prefixes and one broadcast batch of 3 put/delete events on any of 4 keys; ring: sizes 1..3 with symbolic counters and revisions; hand-over: watch registration racing 1 concurrent write with the sequencer and fan-out threads in the schedule (<= 1 delay); publication: a watch registering while the sequencer publishes one stored write (cache insertion and broadcast) and the fan-out forwards it (<= 2 delays), and the same with the sequencer held at the cache insertion; slow consumer: 5 queued batches, subscriber buffers of 1, consumer/forwarder/fan-out/removal interleaved (<= 2 delays)",
                    thorough="2 keys for the sequential client; ring sizes 1..5; hand-over with 2 concurrent writes and 2 deviations; 6 batches and 3 deviations for the slow consumer; broadcast batches of 5 events"),
        outside="real channel capacities (10000 / 100) other than through the isolated fan-out harness; more than 2 scheduling delays; more than 3 watches on one node, broadcast batches of more than 3 (thorough 5) events",
    ),
    "C07": dict(
        harnesses=[
            dict(run=B + "VerifC07Compact", quick=dict(ops=2, keys=1, val9=0, delfaults=1), thorough=dict(ops=3, keys=1, val9=0, delfaults=2),
                 covers=["delete-error", "delete-unknown-applied", "delete-unknown-lost", "compactor-dies", "get-present", "get-absent", "done"]),
            dict(run=B + "VerifC07Compact", name="C07_partitioned", quick=dict(ops=2, keys=1, val9=0, delfaults=0, borders=1, after=0), thorough=dict(ops=2, keys=2, val9=0, delfaults=1, borders=2, after=0),
                 covers=["partitioned", "border-inside-versions", "border-on-index-record", "get-present", "get-absent", "done"]),
            dict(run=B + "VerifC07Borders", quick=dict(maxskip=2, keylen=4), thorough=dict(maxskip=3, keylen=6), covers=["with-skipped", "done"]),
            dict(run=B + "VerifC07Race", quick=dict(preempt=1), thorough=dict(preempt=2), covers=["racing-write-succeeded", "get-present", "get-absent", "done"], stress=20),
            dict(run=B + "VerifC07Interleave", quick=dict(points=8), thorough=dict(points=12), covers=["write-inside-compaction", "write-after-compaction", "interleaved-write-succeeded", "done"]),
            dict(run=B + "VerifInductiveStep", name="C07_inductive", quick=dict(val9=0, maxversions=2, stepkind=2), thorough=dict(val9=0, maxversions=3, stepkind=2),
                 covers=["compacted", "get-present", "get-absent", "done"]),
        ],
        bounds=dict(quick="histories of 2 writes on 1 key (multi-version, tombstones, re-created), compaction at every revision R in (base, current], one fault (error / outcome unknown and applied / outcome unknown and not applied / compactor dies) at any compaction delete, reads at every R' >= R and latest, one further write; compaction racing one symbolic write (create / update / delete) on a key with a tombstone, two live versions or a re-created key, interleaved at the store operations, revision dealing and request boundaries with <= 1 scheduling delay; compaction ranges for prefix /r with 0..2 skipped prefixes of symbolic bytes (conditions of KubeBrainOption.Validate assumed) against a symbolic raw key of 2..5 bytes; a whole write (any kind, symbolic expectation) placed before any of the first 8 store operations of the compaction or after it (3 key histories); one compaction at any revision from an arbitrary invariant-satisfying state of one key (0..2 versions), reads from the floor up unchanged, invariant re-established; compaction (no fault) on an engine that splits the key space at one border — an index record or any internal key inside a key's versions — after histories of 2 writes",
                    thorough="histories of 3 writes, up to 2 faults; two borders in any order with one fault over 2 keys; the race with <= 2 scheduling deviations; 12 positions for the whole write; up to 3 skipped prefixes against raw keys of up to 7 bytes; the inductive compaction step over 0..3 versions"),
        outside="time-based expiry (C17); more than one concurrent writer during the scan; more than 2 (thorough: 3) skipped prefixes or skipped prefixes longer than <prefix>+3 bytes",
    ),
    "C08": dict(
        harnesses=[
            dict(run=B + "VerifC08Floor", quick=dict(ops=1, keys=1, val9=0, compactions=2), thorough=dict(ops=1, keys=1, val9=0, compactions=3, interleave=0),
                 covers=["accepted", "older-request-accepted", "refused", "refused-limited", "refused-stream", "served", "done"]),
            dict(run=B + "VerifC08Race", quick=dict(preempt=1), thorough=dict(preempt=2), covers=["refused", "served", "done"]),
            dict(run=B + "VerifC08TwoNodes", covers=["done"]),
            dict(run=B + "VerifC08TwoCompactions", quick=dict(preempt=2), thorough=dict(preempt=3), covers=["both-accepted", "done"], stress=10),
        ],
        bounds=dict(quick="1-write history, 2 compaction requests with unconstrained 64-bit revisions (increasing, repeated, decreasing, 0, above current), then an unlimited / limited / streamed range read at any revision; "
                          "race: 3 fixed key histories (tombstone, two versions, re-created) with symbolic values, one unlimited / paginated / streamed read at any older revision r racing one compaction at any c > r, "
                          "every interleaving of their store operations with at most 1 deviation from the default scheduler, engine with and without snapshot reads",
                    thorough="3 compaction requests after a 1-write history; the racing read with at most 2 scheduling deviations"),
        outside="Count (always served at the current revision); more than two compactions at the same time, a compaction racing another compaction and a read together",
    ),
    "C13": dict(
        harnesses=[
            dict(run=B + "VerifC13Partitions", quick=dict(ops=2, keys=1, val9=0, borders=1), thorough=dict(ops=2, keys=2, val9=0, borders=2),
                 covers=["partitioned", "border-on-index-record", "border-inside-versions", "done"]),
            dict(run=B + "VerifC13ManyPartitions", quick=dict(pieces=40, val9=0, _loop=400), thorough=dict(pieces=70, val9=0, _loop=400), covers=["partitioned", "several-advertised-pieces", "done"]),
            dict(run=B + "VerifC13Retry", quick=dict(val9=0, borders=1, iterfaults=8), thorough=dict(val9=0, borders=2, iterfaults=12),
                 covers=["partitioned", "iterator-fault", "done"]),
        ],
        bounds=dict(quick="2-write histories on 1 key, 2 partitions with the border at Encode(name, rev) for any 64-bit rev (index record, inside versions, beyond), pieces reported in any order; unlimited list, count, streamed range as a whole and streamed per advertised partition (GetPartitions, then one stream per piece) at every readable revision over the whole prefix or an interval that starts or ends exactly on a stored key; many pieces: 3 keys (two updated) on an engine reporting 40 pieces (borders on and between every version of every key, reported in reverse order), each kind of read at any readable revision; retry: 3 keys (one updated), 1 border, one transient iterator fault at any of the first 8 steps of the scan of any piece of an unlimited list / count / streamed range at the latest revision",
                    thorough="2 keys, up to 3 partitions; the retry harness with 2 borders and a fault at any of the first 12 iterator steps"),
        outside="borders that are not well-formed internal keys; a retry after a batch of the failed attempt was already sent (batches hold 300 keys); more than one engine fault per read",
    ),
    "C02": dict(
        harnesses=[
            dict(run="pkg/backend/tso.VerifC02TSO", quick=dict(preempt=2, dealers=2), thorough=dict(preempt=3, dealers=2), covers=["done"], no_native=False),
            dict(run="pkg/backend/tso.VerifC02TSO", name="C02_leaderstart", quick=dict(preempt=2, dealers=2, leaderstart=1), thorough=dict(preempt=3, dealers=3, leaderstart=1), covers=["counter-moved-forward", "done"]),
            dict(run=B + "VerifC02Header", quick=dict(ops=1, keys=1, val9=0), thorough=dict(ops=2, keys=2, val9=0), covers=["get-kv", "list-sees-unreported-write", "done"]),
            dict(run=B + "VerifC01Race", name="C02_Race", quick=dict(ops=1, keys=1, val9=0, preempt=1), thorough=dict(ops=1, keys=2, val9=0, preempt=1), covers=["both-succeed", "done"]),
            dict(run="pkg/zzc15.VerifC15Gate", name="C02_gate", quick=dict(preempt=2), thorough=dict(preempt=3), covers=["client-served-by-new-leader", "client-turned-away", "done"], no_native=True),
        ],
        assumptions=["C02_gate (a write arriving during a leader change) is decided over the model of client-go's elector and is not replayed natively"],
        bounds=dict(quick="revision generator: 2 concurrent Deal + 1 Commit, all interleavings of its atomic operations with <= 2 preemptions, symbolic start value — also right after the counter was moved to an arbitrary revision (a node that starts leading); header >= data on Get/List/limited List issued while a stored write is not yet reported readable (1-write history, read revision symbolic); uniqueness / real-time order / per-key monotonicity on the 2-client harness of C01; a write arriving at any moment of a leader change (<= 2 delays) is stamped above every revision the old leader stored",
                    thorough="3 scheduling deviations on the generator; 2-write histories over 2 keys for the header clause; the two concurrent clients over 2 keys (1 deviation)"),
        outside="more than 2 concurrent dealers; Commit(r) with r above the dealt counter racing Deal other than through the leader-change harness",
    ),
    "C04": dict(
        harnesses=[
            dict(run=B + "VerifC04Resolve", name="C04_sequencer", quick=dict(ops=0, val9=0, preempt=1, faults=0, sequencer=1), thorough=dict(ops=0, val9=0, preempt=1, faults=1, sequencer=1), covers=["request-error", "done"]),
            dict(run=B + "VerifC04Resolve", name="C04_faults", quick=dict(ops=0, val9=0, preempt=1, faults=1, sequencer=0), thorough=dict(ops=0, val9=0, preempt=2, faults=1, sequencer=0), covers=["storage-fault", "request-error", "done"]),
            dict(run=B + "VerifC04Resolve", name="C04_cancel", quick=dict(ops=1, val9=0, preempt=1, faults=0, sequencer=1, cancels=1, clients=1), thorough=dict(ops=1, val9=0, preempt=2, faults=0, sequencer=1, cancels=1, clients=2), covers=["client-gone", "done"]),
        ],
        bounds=dict(quick="2 concurrent requests of any kind on 1 key with unconstrained expected revisions (incl. far-future / 'negative'), the sequencer thread taking part in the schedule exploration (<= 1 preemption), and, separately, one storage fault (error / unknown-applied / unknown-lost) on any commit; one request whose client goes away (context cancelled) at any moment of the request, sequencer in the schedule",
                    thorough="the sequencer in the schedule together with one storage fault; 2 scheduling deviations with one fault; 2 requests one of whose clients goes away, 2 deviations"),
        outside="more than 2 concurrent requests; the retry loop firing during the requests (C09)",
    ),
    "C06": dict(
        harnesses=[
            dict(run=B + "VerifC06ListWatch", quick=dict(ops=1, keys=1, val9=0, later=2, newleader=1), thorough=dict(ops=1, keys=2, val9=0, later=2, newleader=1), covers=["put-applied", "delete-applied", "compaction-between", "new-leader-refuses-watch", "done"]),
            dict(run=B + "VerifC06Race", quick=dict(preempt=2), thorough=dict(preempt=3), covers=["read-saw-racing-write", "read-missed-racing-write", "done"], stress=10),
            dict(run=B + "VerifC05PublishHeld", name="C06_publish", quick=dict(before=1, cache=8), thorough=dict(before=2, cache=2), covers=["events-delivered", "done"], stress=5),
            dict(run=B + "VerifC05Publish", name="C06_publish_sched", quick=dict(before=1, pending=1, preempt=2), thorough=dict(before=1, pending=2, preempt=3), covers=["events-delivered", "done"], stress=4),
        ],
        bounds=dict(quick="1-write history, list at latest (R), watch from R+1, 2 further symbolic writes (successful and failed) with an optional compaction at any revision in between, reconstruction from the events up to any later revision R' (symbolic, R <= R' <= latest) compared with the list served at R' (explicit revision, or 0 at the latest; refused only below a compaction floor) and with the reference model; alternatively one more write and then the watch goes to a node that has just taken over (empty event cache): refused or complete; the range read racing a concurrent create and the sequencer (interleaved at store operations, revision dealing and committing, <= 2 scheduling delays), then watch + 1 further write; the watch from R+1 registering while the sequencer publishes the write at R+1 (event cache and broadcast) — with the sequencer held at the cache insertion, and under every interleaving of watch, sequencer and fan-out with <= 2 scheduling delays",
                    thorough="2 keys; the racing range read with 3 scheduling deviations; publication of 2 pending writes with 3 delays"),
        outside="more than one concurrent writer; a watch registration racing several writers (C05 hand-over harness covers one)",
    ),
    "C09": dict(
        harnesses=[
            dict(run=B + "VerifC09Uncertain", name="C09_foreign", quick=dict(ops=1, keys=1, val9=0, foreign=1, repairfaults=0, native_tick_ms=1300), thorough=dict(ops=1, keys=1, val9=0, foreign=2, repairfaults=0, native_tick_ms=1300),
                 covers=["unknown-applied", "unknown-lost", "repair-rewrites", "compaction-capped", "done"]),
            dict(run=B + "VerifC09Uncertain", name="C09_repairfault", quick=dict(ops=1, keys=1, val9=0, foreign=0, repairfaults=1, native_tick_ms=1300), thorough=dict(ops=1, keys=1, val9=0, foreign=1, repairfaults=1, native_tick_ms=1300),
                 covers=["unknown-applied", "repair-rewrites", "done"]),
            dict(run=B + "VerifC09Uncertain", name="C09_overmark", quick=dict(scenario=0, faultpos=2, keys=1, val9=0, foreign=1, repairfaults=0, native_tick_ms=1300),
                 thorough=dict(scenario=2, faultpos=2, keys=1, val9=0, foreign=1, repairfaults=0, native_tick_ms=1300), covers=["unknown-applied", "unknown-lost", "done"]),
            dict(run=B + "VerifC09Uncertain", name="C09_inductive", quick=dict(arbitrary=1, maxversions=2, keys=1, val9=0, foreign=0, repairfaults=0, native_tick_ms=1300),
                 thorough=dict(arbitrary=1, maxversions=2, keys=1, val9=0, foreign=0, repairfaults=1, native_tick_ms=1300), covers=["unknown-applied", "unknown-lost", "repair-rewrites", "index-absent-over-deletion-mark", "done"]),
            dict(run="pkg/backend/retry.VerifC09Queue", quick=dict(steps=6), thorough=dict(steps=10), covers=["three-pending", "popped", "done"]),
            dict(run=B + "VerifC09CompactRace", name="C09_compactrace", quick=dict(ops=1, keys=1, val9=0, preempt=1), thorough=dict(ops=1, keys=1, val9=0, preempt=2),
                 covers=["unknown-outcome", "compaction-capped", "done"]),
        ],
        bounds=dict(quick="1-write history; one create/update/delete (symbolic expectation) whose commit is answered 'unknown' in both variants; 1 further symbolic write to the same key; optional Compact(0) while unresolved; the repair loop with symbolic elapsed time; separately a fault of any kind on the repair write itself; the same on a key that was created and deleted (deletion mark present), the fault on the request's first or second commit (a create over a deletion mark commits twice); a compaction request racing the writer and the sequencer while the outcome is unknown (<= 1 scheduling deviation); the queue of unresolved writes against a reference FIFO for every sequence of 6 pushes/pops (several writes unresolved at once); the whole unknown-outcome / repair cycle starting from an arbitrary store state of the key that satisfies the representation invariant (0..2 versions with symbolic revisions, deletion marks, every form of the index record, any compaction record), the invariant re-established afterwards",
                    thorough="2 further writes after the unknown outcome; repair fault together with a further write; the unknown outcome on a re-created key; the compaction race with 2 deviations"),
        outside="a write that lands after its commit call returned 'unknown'; TiKV's error classification (adapter, C11)",
    ),
    "C16": dict(
        harnesses=[
            dict(run="pkg/server/etcd.VerifC16Classify", quick=dict(maxcmp=1, maxfail=1), thorough=dict(maxcmp=2, maxfail=1), covers=["rejected", "executed-create", "executed-update", "executed-delete", "compact-probe"]),
            dict(run="pkg/server/etcd.VerifC16Answers", quick=dict(ops=2, keys=2), thorough=dict(ops=3, keys=2), covers=["create-ok", "update-ok", "update-failed", "delete-ok", "delete-failed", "unguarded-delete-ok", "list-cut", "done"]),
            dict(run="pkg/server/etcd.VerifC16Answers", name="C16_answers3", quick=dict(ops=3, keys=1), thorough=dict(ops=4, keys=1), covers=["create-ok", "update-failed", "delete-ok", "done"]),
            dict(run="pkg/server/etcd.VerifC16WatchMapping", quick=dict(keys=1), thorough=dict(keys=2), covers=["put-event", "delete-event", "no-event", "replayed-from-cache"]),
            dict(run="pkg/server/etcd.VerifC16WatchStream", quick=dict(writes=3), thorough=dict(writes=4), covers=["delete-event", "several-responses", "done"]),
        ],
        bounds=dict(quick="transactions with 0..1 compares (target MOD/VERSION/CREATE, result EQUAL/GREATER/NOT_EQUAL, 2 keys + the compaction key, symbolic revision), 0..2 success ops and 0..1 failure ops of kind put/range/delete-range with symbolic option flags and optional range_end; answers: histories of 2 supported transactions over 2 keys with symbolic expected revisions, then get / list (limits 0..n+1) / count-only; watch mapping: 1 write before and 1 after the watch; watch stream: a prefix watch through the etcd Watch handler with a client connection that is still taking response n while the batch of write n+1 reaches the shim (3 writes: create, update, update or delete, symbolic values): one PUT / DELETE per write, in order, each with its own contents, header = last event",
                    thorough="0..2 compares with 0..1 failure ops (2 failure ops exceeded 2 million runs); histories of 3 transactions over 2 keys and of 4 over 1 key"),
        outside="create/version fields kubebrain cannot provide; Count as etcd's total under a limit (kubebrain reports 'at least one more'); revision 1888 with a range end (documented partition-listing escape hatch)",
    ),
    "C17": dict(
        harnesses=[
            dict(run=B + "VerifC17Prefix", quick=dict(extra=4), thorough=dict(extra=8), covers=["ttl-given"]),
            dict(run=B + "VerifC17Prefix", name="C17Prefix_z3new", thorough=dict(extra=8), tiers=["thorough"], solver="z3-new", validate=0),
            dict(run=B + "VerifC17Prefix", name="C17Prefix_cvc5", thorough=dict(extra=8), tiers=["thorough"], solver="cvc5", validate=0),
            dict(run=B + "VerifC17Expiry", quick=dict(ops=1, keys=3, val9=0, between=1), thorough=dict(ops=2, keys=3, val9=0, between=1),
                 covers=["event-expired", "old-event-kept-ttl-not-elapsed", "young-event-kept", "done"]),
            dict(run=B + "VerifC17Expiry", name="C17_expiryfault", quick=dict(ops=1, keys=1, val9=0, between=0, expiryfaults=1), thorough=dict(ops=2, keys=1, val9=0, between=0, expiryfaults=1),
                 covers=["expiry-delete-failed", "done"]),
            dict(run=B + "VerifC17TTLWrites", quick=dict(updates=1), thorough=dict(updates=2), covers=["ttl-record", "done"]),
            dict(run=B + "VerifC17Race", quick=dict(preempt=2, native_tick_ms=1300), thorough=dict(preempt=3, native_tick_ms=1300), covers=["update-won", "expiry-won", "done"], stress=5),
            dict(run=B + "VerifC17TwoCompactions", quick=dict(preempt=1, native_tick_ms=1300), thorough=dict(preempt=2, native_tick_ms=1300), covers=["old-event-expired", "done"], stress=5),
        ],
        bounds=dict(quick="keys of 10..14 fully symbolic bytes (> '$') for the TTL decision; expiry: 1-write history over {an Event key, a key that merely contains /events/, a plain key}, compaction mark, 1 further write, symbolic elapsed time, second compaction on an engine without native TTL — also with one delete of the expiry pass failing (an Event is then kept whole or removed whole, never left with an index and no versions); on an engine with native TTL a create / update / optional delete with symbolic lease fields on each of the three keys: only records of keys under <prefix>/events/ carry a TTL; the expiry scan racing an update of the Event (interleaved at the store operations, <= 2 scheduling delays); two compaction requests at the same time after an old mark expired, with a young Event present (<= 1 scheduling deviation, gate at the log line between reading and removing the oldest mark)",
                    thorough="keys of 10..18 bytes (also decided by z3 5.1 and cvc5: the explorations must agree); 2-write histories; 3 deviations for the update race, 2 for the concurrent compactions"),
        outside="expiry inside engines with native TTL (memkv AfterFunc, Badger entry TTL: an Event updated there keeps only its creation's TTL) beyond which records are written with a TTL at all; more than one failed delete during expiry, a compactor that dies in the middle of an expiry; more than one compaction mark",
    ),
    "C18": dict(
        harnesses=[
            dict(run="pkg/server/etcd.VerifC18Etcd", covers=["write-applied", "write-forwarded", "write-rejected", "read-served", "read-refused", "watch-served", "watch-forwarded", "watch-rejected", "stream-refused", "stream-served"]),
            dict(run="pkg/server/brain.VerifC18Brain", covers=["write-applied", "write-rejected", "read-served", "read-refused", "watch-served", "watch-rejected"]),
            dict(run="pkg/server/service/revision.VerifC18Sync", covers=["adopted", "refused"]),
            dict(run="pkg/server.VerifC18Status", covers=["adopted", "refused"]),
            dict(run="pkg/server/service/revision.VerifC18Concurrent", quick=dict(preempt=2), thorough=dict(preempt=3), covers=["done"], stress=5),
            dict(run="pkg/server.VerifC18Takeover", quick=dict(preempt=2), thorough=dict(preempt=3), covers=["status-answered", "status-refused", "done"], no_native=True),
            dict(run="pkg/zzc15.VerifC15Gate", name="C18_gate", quick=dict(preempt=2), thorough=dict(preempt=3), covers=["client-served-by-new-leader", "client-turned-away", "done"], no_native=True),
        ],
        bounds=dict(quick="every handler of both APIs (etcd Txn x3 shapes, Range get/list/count/partitions, Watch; native Create/Update/Delete/Compact/Get/Range/Count/ListPartition/RangeStream/Watch) x {leader, follower} x {proxy on, off} x {leader reachable, unreachable}, with symbolic revisions (zero, old, far future, negative through the etcd API), limits, values and optional range ends in every request; watch start revision symbolic (a negative one is a streamed range read and must sync like any read); the real revision syncer against a leader that answers with a symbolic revision / an error status / not at all / with its answer cut after the headers; the real syncer against the real /status handler of a node that is / is not leader (response writer with net/http's status contract); 2 concurrent follower reads sharing the real single-flight fetch while the leader commits a write (<= 2 scheduling delays); a node in the middle of its take-over (built by the real NewServer wiring, asked through its real /status handler; and at the backend level): whenever it answers as leader the revision it publishes covers everything stored (<= 2 delays)",
                    thorough="3 scheduling delays for the concurrent reads; the handler enumeration is complete in both tiers"),
        assumptions=["C18_gate (the /status revision and a write served during a leader change) is decided over the model of client-go's elector and is not replayed natively"],
        outside="TLS / schema retry of the syncer (http only); the etcd proxy client; more than 2 concurrent follower reads",
    ),
    "C14": dict(
        harnesses=[
            dict(run="pkg/backend/election.VerifC14Lock", quick=dict(candidates=2, steps=5), thorough=dict(candidates=3, steps=6), covers=["created", "create-refused", "updated", "update-refused", "done"]),
            dict(run="pkg/backend/election.VerifC14Lock", name="C14_engines", quick=dict(candidates=2, steps=4, engines=4), thorough=dict(candidates=3, steps=5, engines=4), covers=["created", "create-refused", "updated", "update-refused", "engine-memkv", "engine-badger", "engine-tikv", "done"]),
        ],
        bounds=dict(quick="2 candidates, every sequence of 5 whole Get/Create/Update calls (each contains exactly one store operation), symbolic record contents, both conflict-reporting styles of the engine contract; and every sequence of 4 calls over the real adapter code of the in-memory engine, Badger and TiKV (models of their libraries; counterexamples replayed on memkv, a Badger directory, the mock TiKV cluster)",
                    thorough="3 candidates, 6 steps on the contract store, 5 steps on the three adapters"),
        outside="interleavings inside one method call (each contains a single store write, so call-level interleaving is the relevant granularity); client-go's elector loop",
    ),
    "C15": dict(
        harnesses=[
            dict(run="pkg/zzc15.VerifC15Restart", quick=dict(attempts=2, failures=2, oraclefaults=0, native_idle_ms=400), thorough=dict(attempts=3, failures=2, oraclefaults=0, native_idle_ms=400), covers=["failed-writes-consumed-revisions", "follower-sync", "done"], validate=1),
            dict(run="pkg/zzc15.VerifC15Gate", quick=dict(preempt=2), thorough=dict(preempt=3), covers=["restart-same-identity", "client-served-by-new-leader", "client-turned-away", "done"], no_native=True),
            dict(run="pkg/zzc15.VerifC15Restart", name="C15_oraclefault", quick=dict(attempts=1, oraclefaults=3, native_idle_ms=400), thorough=dict(attempts=2, oraclefaults=4, native_idle_ms=400), covers=["oracle-fault-during-takeover", "follower-sync", "done"], validate=1),
        ],
        bounds=dict(quick="old leader elected through the real election path, 2 refused writes, then 2 write attempts with symbolic expected revisions (any mix of successes, failed conditions and future-revision rejections) each optionally followed by a lock renewal; new node with 0..2 follower revision syncs in any order, elected over the same store; engine clock contract: wall clock/PD timestamp (>= 1 unit per attempt) or count of committed transactions; separately (1 write attempt): the engine's timestamp oracle fails once at any of its first 3 calls during the take-over and the elector runs one more round; take-over gate: a client write arriving at any moment of the new node's election pass (another node, or the same node restarted under the identity the record still names), <= 2 scheduling delays: whenever the node says it is leader its revisions are above everything stored",
                    thorough="2 refused writes + 3 write attempts; oracle fault with 2 write attempts, at any of the first 4 calls; the gate with 3 delays"),
        outside="client-go's elector loop beyond one acquire pass and the immediate first renewal (natively the real elector runs, with its goroutines stopped or held back by the harness's storage wrapper so that the callback precedes the first renewal); real clocks; the assumption 'fewer than one write attempt per clock unit' for wall-clock/PD engines",
        assumptions=["leaderelection.RunOrDie / LeaderElector are replaced by a model of one successful acquire pass followed by the renew loop's immediate first pass; counterexamples and sampled paths of VerifC15Restart are replayed natively with client-go's real elector (the old leader's elector is made to hang, the new one sits out the real 8 s lease); VerifC15Gate is engine-only (the recorded schedule cannot be forced on the real elector's goroutines)"],
    ),
    "C20": dict(
        harnesses=[
            dict(run="pkg/zzc20.VerifC20NoCrash", name="C20_single", quick=dict(requests=1, keylen=2, roles=1, ticks=1, iterfault=1, cache=2, warmup=3), thorough=dict(requests=1, keylen=3, roles=1, ticks=1, iterfault=1, cache=2, warmup=3), covers=["done"]),
            dict(run="pkg/zzc20.VerifC20NoCrash", name="C20_pairs", quick=dict(requests=2, keymenu=1, handlers=14, watchvariants=0), thorough=dict(requests=2, keylen=1, handlers=14, watchvariants=0), covers=["done"]),
            dict(run="pkg/zzc20.VerifC20Concurrent", quick=dict(preempt=1), thorough=dict(preempt=2), covers=["done"], stress=20),
            # runs of other properties' harnesses at small bounds, only for the table of metric emissions
            # (their own assertions are decided under their own property)
            dict(run="pkg/server/service/revision.VerifC18Sync", name="C20_sites_sync", cover_only=True, validate=0),
            dict(run="pkg/server.VerifC18Status", name="C20_sites_status", cover_only=True, validate=0),
            dict(run="pkg/server/etcd.VerifC16WatchMapping", name="C20_sites_watch", params=dict(keys=1), cover_only=True, validate=0),
            dict(run="pkg/zzc15.VerifC15Restart", name="C20_sites_election", params=dict(attempts=1, oraclefaults=0), cover_only=True, validate=0, no_native=True),
            dict(run=B + "VerifC09Uncertain", name="C20_sites_retry", params=dict(ops=1, keys=1, val9=0, foreign=0, repairfaults=1), cover_only=True, validate=0),
            dict(run=B + "VerifC07Compact", name="C20_sites_compact", params=dict(ops=2, keys=1, val9=0, delfaults=1, after=0), cover_only=True, validate=0),
            dict(run=B + "VerifC05SlowConsumer", name="C20_sites_slow", params=dict(batches=3, reads=1, preempt=1), cover_only=True, validate=0),
            dict(run=B + "VerifC01Seq", name="C20_sites_gauge", params=dict(ops=2, keys=1, val9=0, bases=2), cover_only=True, validate=0),
        ],
        emit_table=True,
        emit_exceptions={
            "pkg/metrics/prometheus/grpc_server_options.go": "gRPC interceptors: the transport is outside every claim",
            "watch.backend.list_stream.err": "backend.ListByStream never returns an error (scan failures arrive in the stream's terminator)",
            "leader.election.lost": "emitted on the way out: the process exits right after (klog.Fatal)",
            "watch.event.buffer.invalid": "notify() with revision 0: not reachable since every write path resolves the revision it allocated (fix 0720862)",
            "watch.event.buffer.full": "needs 100 000 unresolved revisions in flight",
            "backend.set_compact_revision.err": "needs an engine fault on the compaction record's own write; no label besides the name",
            "storage.iter.start": "the unexpected-error branch needs an engine whose Iter fails at creation; the success branch of the same metric (same label names by construction of the two tag variables) is executed",
        },
        bounds=dict(quick="every ordered pair of requests whose key is empty or an ordinary key (so that two emission sites of one metric — with the label sets of both the refused and the served shape — meet in one process), and one request through any of 15 handler groups of both APIs (including the lease and cluster handlers), arriving at a leader or at a follower with or without the etcd proxy, over the production stack (engine behind the storage metrics wrapper, optionally with one transient engine fault in a scan) on a node whose event cache (2 entries) has wrapped after 3 earlier writes, with keys/values/range ends of 0..2 arbitrary bytes (invalid UTF-8, bytes below the alphabet), symbolic 64-bit revisions and limits (zero, negative, far future), missing sub-messages, watches whose client goes away before or after the registration, etcd watch streams that carry a cancel or an unsupported request, whose connection breaks after 0..1 responses, with a write under the watched key while they are open; the periodic compaction loop ticking once; real prometheus wrapper over a model of client_golang's panic rules; then a new watch, a create and a get must work and the watch must receive the create. "
                          "Metric table: every metric emission executed by the code under test in these runs and in small runs of eight other harnesses (revision syncer, /status handler, etcd watch mapping, election, repair loop, compaction with a failing delete, slow subscriber, revision gauge) is recorded with call site, kind, metric name and label names, and compared with the list of all Emit call sites taken from the SSA of the current source (98 sites): one metric name = one kind and one set of label names over all sites (a conflict is replayed through the real prometheus client), and every call site outside the declared exceptions must have been executed",
                    thorough="pairs with keys of 0..1 bytes; single requests with keys of 0..3 bytes"),
        outside="protobuf/gRPC decoding and the gRPC interceptors' own metrics; resource exhaustion; more than 2 requests per process, concurrent requests other than the first two of a node (same handler, <= 1 scheduling delay); the emission sites listed as exceptions in the evidence (metric_emissions.uncovered, each with its reason); label *values* other than those the requests produce",
    ),
    "C11": dict(
        harnesses=[
            dict(run="pkg/zzc11.VerifC11Memkv", quick=dict(entries=2, ops=2), thorough=dict(entries=2, ops=2), covers=["batch-applied", "batch-refused", "get-hit", "iter-several", "iter-descending", "changed-under-iterator", "done"]),
            dict(run="pkg/zzc11.VerifC11Memkv", name="C11_Memkv3", thorough=dict(entries=3, ops=1), tiers=["thorough"], covers=["done"]),
            dict(run="pkg/zzc11.VerifC11MemkvMetrics", quick=dict(entries=1, ops=1), thorough=dict(entries=2, ops=1), covers=["batch-applied", "batch-refused", "done"]),
            dict(run="pkg/zzc11.VerifC11Badger", quick=dict(entries=2, ops=1), thorough=dict(entries=2, ops=2), covers=["batch-applied", "batch-refused", "get-hit", "iter-several", "iter-descending", "changed-under-iterator", "done"]),
            dict(run="pkg/zzc11.VerifC11BadgerMetrics", quick=dict(entries=1, ops=1), thorough=dict(entries=2, ops=1), covers=["batch-applied", "batch-refused", "done"]),
            dict(run="pkg/zzc11.VerifC11TiKV", quick=dict(entries=2, ops=1), thorough=dict(entries=2, ops=2), covers=["batch-applied", "batch-refused", "get-hit", "iter-several", "iter-descending", "changed-under-iterator", "done"], validate=2),
            dict(run="pkg/zzc11.VerifC11TiKVPartitions", covers=["several-regions", "all-three-regions", "done"]),
            dict(run="pkg/zzc11.VerifC11ConcurrentBadger", quick=dict(preempt=2), thorough=dict(preempt=3), covers=["done"], stress=3, validate=1),
            dict(run="pkg/zzc11.VerifC11ConcurrentTiKV", quick=dict(preempt=2), thorough=dict(preempt=3), covers=["done"], stress=3, validate=1),
            dict(run="pkg/zzc11.VerifC11ConcurrentMemkv", quick=dict(preempt=2), thorough=dict(preempt=3), covers=["done"], stress=3, validate=1),
            dict(run="pkg/zzc19.VerifC19Memkv", name="C11_memkv_concurrent", quick=dict(preempt=2), thorough=dict(preempt=3), covers=["done"], race=True, race_replay=True, stress=40),
            dict(run="pkg/zzc11.VerifC11ScanTiKV", quick=dict(scan=260, _loop=2000), thorough=dict(scan=520, _loop=4000), covers=["changed-under-long-scan", "done"]),
            dict(run="pkg/zzc11.VerifC11ScanMemkv", quick=dict(scan=260, _loop=2000), thorough=dict(scan=520, _loop=4000), covers=["changed-under-long-scan", "done"]),
            dict(run="pkg/zzc11.VerifC11ScanBadger", quick=dict(scan=260, _loop=2000), thorough=dict(scan=520, _loop=4000), covers=["changed-under-long-scan", "done"]),
        ],
        bounds=dict(quick="each of memkv, Badger, TiKV (and the metrics wrapper over memkv and over Badger): 2 initial entries with symbolic keys of 1..2 bytes over {a,b,c} and symbolic values; then one batch of 1 operation (memkv: 1..2) of put-if-absent / CAS / put / delete with symbolic key, value, expected value and TTL flag, or one Get, one Del, one compare-and-delete (entry optionally really changed under the iterator), or one iteration with symbolic bounds in either direction and limit 0..2 — differential against the contract store; the TiKV adapter's GetPartitions over 3 regions split at symbolic keys for any requested interval",
                    thorough="batches of up to 2 operations on every engine (several conditions, a condition on a key written or deleted earlier in the batch); 3 initial entries with single operations on memkv"),
        outside="the engines themselves (Badger's SSI, TiKV's percolator and regions: their client libraries are replaced by models, every counterexample is replayed on the real library / the mock cluster); TTL expiry inside engines; concurrent transactions other than two conditional batches on one key (compare-and-swap on the same old value, or put-if-absent on the same missing key; every interleaving of their engine calls with <= 2 delays, on all three adapters; natively repeated with 8 writers on 150 keys) and reader / writer / iterator on the in-memory adapter (<= 2 scheduling delays: a key never written is not found, an iterator yields only written keys); keys longer than 2 bytes; a rewrite with the identical value under an iterator (the contract allows delete-if-value-equal or delete-if-version-equal)",
        assumptions=["github.com/huandu/skiplist, github.com/dgraph-io/badger and github.com/tikv/client-go/v2 are replaced by engine models (sorted sequences with snapshots and versions); counterexamples and sampled paths are replayed on the real libraries (Badger in a temp dir, client-go's mock TiKV cluster)"],
    ),
    "C19": dict(
        harnesses=[
            dict(run="pkg/zzc19.VerifC19Memkv", quick=dict(preempt=2), thorough=dict(preempt=3), covers=["done"], race=True, race_replay=True, stress=40),
            dict(run="pkg/zzc19.VerifC19MemkvTTL", quick=dict(preempt=1, native_timer_ms=1300), thorough=dict(preempt=2, native_timer_ms=1300), covers=["done"], race=True, race_replay=True, stress=10),
            dict(run="pkg/zzc19.VerifC19Backend", quick=dict(preempt=1), thorough=dict(preempt=2), covers=["done"], race=True, race_replay=True, stress=40),
            dict(run=B + "VerifC19HubOverflow", quick=dict(preempt=1), thorough=dict(preempt=2), covers=["done"], race=True, race_replay=True, stress=40),
            dict(run=B + "VerifC19RetryLoop", quick=dict(preempt=1), thorough=dict(preempt=2), covers=["done"], race=True, race_replay=True, stress=10),
            dict(run=B + "VerifC05Fanout", name="C19_fanout", quick=dict(watches=2, events=2), thorough=dict(watches=3, events=3), covers=["some-filtered", "done"], race=True, race_replay=True, stress=10),
            dict(run="pkg/zzc19.VerifC19FullBatch", quick=dict(writes=301, _loop=700), thorough=dict(writes=601, _loop=1300), covers=["done"], race=True, race_replay=True, stress=5),
        ],
        bounds=dict(quick="happens-before (vector clock) monitor over the explored schedules of: reader ∥ writer ∥ iterator on the in-memory engine (<= 2 delays); TTL expiry (timer goroutine) ∥ reader ∥ iterator (<= 1 delay); update ∥ {get, watch} / {list, count} / {compact, compact} / {create of another key, delete} on one node (event cache of 1 or 2 entries) over the real in-memory adapter with the sequencer and fan-out threads in the schedule (<= 1 delay); one slow write holding the lowest pending revision while a full broadcast batch (300 events) of later writes completes, then one more write, with one watch (default schedule); the fan-out dropping an overflowing subscriber ∥ a new watch registering ∥ a watch being cancelled (<= 1 delay); the background repair loop ticking over one queued unknown-outcome write ∥ update on the same key ∥ compaction request ∥ point read, over the real in-memory engine (<= 1 delay); 2 watches with different prefixes forwarding one shared broadcast batch of 2 events; maps are one abstract location each",
                    thorough="one more delay each; two full batches (601 writes)"),
        outside="Badger / TiKV client internals; the skiplist's internals (one abstract location per list); the Go memory model beyond happens-before; request mixes other than the listed ones; the election goroutine (the leader flag is written once when the node takes over)",
        assumptions=["the verdict is a happens-before computation on each explored schedule: the solver only decides which paths are feasible (weakest fit for the technique, see DESIGN.md C19)"],
    ),
    "C12": dict(
        harnesses=[
            dict(run="pkg/zzc12.VerifC12Engines", quick=dict(requests=2, prestates=1), thorough=dict(requests=2, prestates=1), covers=["write-ok", "compaction", "events", "done"]),
            dict(run="pkg/zzc12.VerifC12Engines", name="C12_prestates", quick=dict(requests=1, prestates=6), thorough=dict(requests=2, prestates=6), covers=["write-ok", "compaction", "events", "done"]),
        ],
        bounds=dict(quick="the same sequence of 2 symbolic requests (create / update / delete / get / list with limit / compact+count; 2 prefix-related keys, symbolic values, expected and read revisions) on five nodes: contract store, in-memory adapter, Badger adapter, TiKV adapter (mock cluster natively), metrics wrapper over Badger; pairwise identical answers, identical events on a watch registered before the requests and on a watch started afterwards from a symbolic revision (served from the event cache or refused); and 1 symbolic request after each of six initial states of a key built through the API (never existed, live, updated, deleted, deleted and compacted away, created again after that)",
                    thorough="the same, with 2 symbolic requests after each of the six initial states (a third request from the empty store exceeded the budget: 184 000 runs in 8 minutes without finishing)"),
        outside="concurrent histories; time-based expiry (engines differ by design: SupportTTL); multi-region TiKV (partitioning is C13's subject); how events are grouped into batches",
    ),
}
