"""Property table: which harnesses decide which property, with the bounds of each tier."""

B = "pkg/backend."
C = "pkg/backend/coder."

PROPS = {
    "C10": dict(
        harnesses=[
            dict(run=C + "VerifC10Roundtrip", quick=dict(keylen=4), thorough=dict(keylen=6), covers=["empty", "nonempty"]),
            dict(run=C + "VerifC10Order", quick=dict(keylen=4), thorough=dict(keylen=6), covers=["same-length", "shorter-first"]),
            dict(run=C + "VerifC10Range", quick=dict(keylen=3), thorough=dict(keylen=5), covers=["range"]),
            dict(run=C + "VerifC10ParseRevision", covers=["parsed", "rejected"]),
            dict(run=C + "VerifC10DecodeSafe", quick=dict(keylen=4), thorough=dict(keylen=6), covers=["accepted", "rejected"]),
            dict(run=B + "VerifC10Prefix", quick=dict(keylen=3), thorough=dict(keylen=4), covers=["prefix", "no-prefix-end"]),
        ],
        bounds=dict(quick="raw keys of every length 0..4 (range clause 0..3, prefix clause 0..3), all 256 byte values for the round-trip, bytes > '$' for ordering; 64-bit revisions fully symbolic",
                    thorough="raw keys of every length 0..6 (range clause 0..5, prefix clause 0..4); 64-bit revisions fully symbolic"),
        outside="keys longer than the stated lengths (no inductive argument attempted)",
        assumptions=["ordering clauses assume the documented alphabet (every byte > '$')"],
    ),
    "C03": dict(
        harnesses=[
            dict(run=B + "VerifC03Get", quick=dict(ops=2, keys=2), thorough=dict(ops=3, keys=2), covers=["get-present", "get-absent", "update-ok", "delete-ok", "create-refused", "done"]),
            dict(run=B + "VerifC03List", quick=dict(ops=2, keys=2), thorough=dict(ops=2, keys=3), covers=["list-cut", "list-multi", "done"]),
            dict(run=B + "VerifC03Again", quick=dict(ops=1, keys=2), thorough=dict(ops=2, keys=2), covers=["done"]),
            dict(run=B + "VerifC03Count", quick=dict(ops=2, keys=2), thorough=dict(ops=3, keys=2), covers=["done"]),
        ],
        bounds=dict(quick="histories of 2 symbolic writes (+1 further write) over 2 prefix-related names; values of 1 or 9 symbolic bytes; expected revisions unconstrained 64-bit; read revision symbolic in [first, committed] or 0; 5 ranges; limits 0..n+1; revision base 5",
                    thorough="histories of 3 writes over 2 names / 2 writes over 3 names (+1 further write)"),
        outside="reads below the compaction floor (C08); engines' own snapshot isolation (C11); keys outside the name set",
        assumptions=["storage engine honours the documented KvStorage contract (model store zzmodel.Store; adapters checked in C11)"],
    ),
}
