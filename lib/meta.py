"""Per-property MANIFEST texts."""
HOOK_COMMITS = []
NA = {}
STD_NOTE = ("Trusted base: gosym's SSA semantics and intrinsics (validated on every run by natively replaying sampled paths and every counterexample), "
            "the stubs listed in the evidence (coverage.stubs), z3 4.8.12. Bounded: nothing outside the stated bounds is claimed.")
META = {
    "C10": dict(text="Every path of the real encode/decode/ParseRevision/PrefixEnd code is executed symbolically for all key lengths up to the bound with fully symbolic bytes and 64-bit revisions; z3 shows each assertion (round-trip, (key,revision) order, range and prefix enclosure, decode safety) unsatisfiable-to-violate on every path. Pure functions, so bounded symbolic execution is the natural decider; longer keys are outside the claim.",
                note=STD_NOTE),
    "C03": dict(text="Differential check of the real Get/List/Count read paths (backend + scanner + coder, sequencer thread running) against a reference MVCC model, after bounded symbolic histories driven through the real write API over a contract model of the storage engine; values, expected revisions, read revision and engine options are solver variables.",
                note=STD_NOTE + " The storage engine is the contract model zzmodel.Store (adapters are C11's subject)."),
    "C01": dict(text="The real Create/Update/Delete paths (backend + creator + coder + tso) run as interpreted threads over the contract store; gosym enumerates the interleavings of two clients' store operations and revision dealing within a preemption bound while values and expected revisions stay symbolic, and z3 decides for each path that successes form a chain under the reference semantics, that failures are justified by a state in flight and that the store equals the chain. Schedule-dependent counterexamples are replayed natively by forcing the recorded order at the store/TSO gate points.",
                note=STD_NOTE),
    "C05": dict(text="Sequential-client watch: the real notify/sequencer/ring/hub/Watch/processEvents code runs as interpreted threads; start revision, values and expected revisions are symbolic; at quiescence the delivered sequence is compared with the reference event log (kind, key, value, previous value and revision for deletes, order, exactly-once).",
                note=STD_NOTE + " Channel capacities are the real ones; the ring holds 2 events."),
    "C07": dict(text="After symbolic histories the real Compact/scanner code runs at a symbolic revision with a nondeterministic fault (error, unknown-applied, compactor dies) on any of its deletes; z3 shows that reads at every R' >= R and at latest equal the reference model, that out-of-range keys are byte-identical and that a further write keeps normal semantics.",
                note=STD_NOTE),
    "C08": dict(text="Compaction requests with unconstrained revisions are issued through the real Compact path; the stored record is asserted monotone and every unlimited/limited/streamed range read below the highest accepted revision must be refused.",
                note=STD_NOTE),
    "C13": dict(text="The contract store advertises partitions whose borders are Encode(name, symbolic revision); the real scan/adjustPartitionsBorders/worker/receiver code (worker goroutines interpreted) must give the same unlimited list, count and streamed range as the unpartitioned reference, each batch naming the read revision and exactly one terminator.",
                note=STD_NOTE),
    "C02": dict(text="Three harnesses: the real naiveTSO under all interleavings of 2 Deal and 1 Commit (symbolic counters) for uniqueness and monotonicity; the real Get/List paths issued while the sequencer is held at a gate (stored but unreported write) for header >= data; and the 2-client harness of C01 for uniqueness, real-time order and per-key monotonicity of the revisions clients see.",
                note=STD_NOTE),
    "C04": dict(text="Two clients and the real sequencer goroutine run as interpreted threads over the contract store with nondeterministic commit faults; a wrapper on the revision generator asserts at every advance of the readable revision that no storage transaction with a revision at or below it is still open (safety), and at quiescence the readable revision equals the highest revision dealt and a later write is readable (progress).",
                note=STD_NOTE),
    "C06": dict(text="Direct bounded check of the list-then-watch contract on the real code: list at R, watch from R+1, symbolic further writes and an optional compaction, then the delivered events are folded over the list result and compared with the list at the later revision and with the reference model. The lemmas it composes (C03, C04, C05, C07, C08) are separate checks.",
                note=STD_NOTE),
    "C09": dict(text="A commit is answered 'outcome unknown' in both variants by the contract store; the real write path, sequencer, retry queue and repair loop (ticker fired by the harness, elapsed time symbolic) run as interpreted threads; further symbolic writes, a compaction attempt and a fault on the repair write are interposed; z3 decides the client-visible error class, the compaction cap, progress of the readable revision and convergence of store and watch stream.",
                note=STD_NOTE + " Natively the repair loop runs on real time (intervals shortened by the in-package harness)."),
}
