"""Per-property MANIFEST texts."""
HOOK_COMMITS = []
NA = {}
STD_NOTE = ("Trusted base: gosym's SSA semantics and intrinsics (validated on every run by natively replaying sampled paths and every counterexample), "
            "the stubs listed in the evidence (coverage.stubs), z3 4.8.12. Bounded: nothing outside the stated bounds is claimed.")
META = {
    "C10": dict(text="Every path of the real encode/decode/ParseRevision/PrefixEnd code is executed symbolically for all key lengths up to the bound with fully symbolic bytes and 64-bit revisions; z3 shows each assertion (round-trip, (key,revision) order, range and prefix enclosure, decode safety) unsatisfiable-to-violate on every path. Pure functions, so bounded symbolic execution is the natural decider; longer keys are outside the claim.",
                note=STD_NOTE),
    "C03": dict(text="Differential check of the real Get/List/Count read paths (backend + scanner + coder, sequencer thread running) against a reference MVCC model, after bounded symbolic histories driven through the real write API over a contract model of the storage engine; values, expected revisions, read revision and engine options are solver variables.",
                note=STD_NOTE + " The storage engine is the contract model zzmodel.Store (adapters are C11's subject)."),
}
