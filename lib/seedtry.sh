#!/bin/bash
# seedtry.sh <seed> <prop> [check args...]: apply seed patch in scratch worktree and run one check against it
s=$1; p=$2; shift 2
wt=/tmp/wt-try-$s
git -C /repo worktree remove --force $wt >/dev/null 2>&1
git -C /repo worktree add --detach $wt HEAD >/dev/null 2>&1
git -C $wt apply /verif/seeded/$s/patch.diff || { echo "patch does not apply"; git -C /repo worktree remove --force $wt; exit 3; }
(cd /verif && VERIF_REPO=$wt VERIF_EVIDENCE_DIR=/tmp/ev-try-$s ./check $p "$@" 2>&1 | tail -8)
git -C /repo worktree remove --force $wt; rm -rf /tmp/ev-try-$s
