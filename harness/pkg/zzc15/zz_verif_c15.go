//go:build verif

// Package zzc15: revisions keep increasing across leader changes and restarts (property C15).
package zzc15

import (
	"context"

	proto "github.com/kubewharf/kubebrain-client/api/v2rpc"

	"github.com/kubewharf/kubebrain/pkg/backend"
	"github.com/kubewharf/kubebrain/pkg/server/service/leader"
	"github.com/kubewharf/kubebrain/pkg/zzmodel"
	"github.com/kubewharf/kubebrain/pkg/zzverif"
)

func newNode(s *zzmodel.Store, id string) (backend.Backend, leader.LeaderElection) {
	be := backend.NewBackend(s, backend.Config{Prefix: "/r", Identity: id, EnableEtcdCompatibility: true, WatchCacheSize: 4}, zzmodel.NoMetrics{})
	le := leader.NewLeaderElection(be, zzmodel.NoMetrics{}, func(context.Context) {}, func() {})
	return be, le
}

// VerifC15Restart: an old leader runs a history that includes failed writes (which consume
// revisions without touching the engine) and lock renewals, then stops; a new node — which may
// have served follower reads, syncing revisions in any order — becomes leader over the same store.
// Every revision it hands out is greater than every revision already stored: a guarded update of
// an existing key succeeds and a create gets a larger revision.
func VerifC15Restart() {
	s := zzmodel.NewStore()
	// engine clock contract: 0 = wall clock / PD timestamp (advances at least one unit per write
	// attempt), 1 = count of committed transactions (Badger's read timestamp)
	engine := zzverif.Choose("engineClock", 2)
	elapsed := uint64(0)
	s.ClockFn = func() uint64 {
		if engine == 1 {
			return 1000 + uint64(s.NApplied)
		}
		return 1000 + elapsed
	}
	ctx := context.Background()
	old, oldLE := newNode(s, "old")
	go oldLE.Campaign()
	zzverif.WaitIdle()
	zzverif.Assert(oldLE.IsLeader(), "first node becomes leader")
	base := old.GetCurrentRevision()

	// the old leader's tenure
	key := []byte("/r/a")
	var stored uint64 // newest stored revision of key
	seen := []uint64{base}
	n := zzverif.Param("attempts", 3)
	failed := 0
	for i := 0; i < n; i++ {
		tag := "w" + string(rune('0'+i))
		elapsed += 1 + uint64(zzverif.Choose(tag+".idle", 2))*5
		exp := zzverif.U64(tag + ".exp")
		zzverif.Assume(exp <= base+uint64(n))
		resp, err := old.Update(ctx, &proto.UpdateRequest{Kv: &proto.KeyValue{Key: key, Value: []byte("v"), Revision: exp}})
		if err != nil {
			zzverif.Assert(exp > base+uint64(i), "old leader: a write is rejected with an error only for a future expected revision")
			failed++
		} else if resp.Succeeded {
			stored = resp.Header.Revision
		} else {
			failed++
		}
		zzverif.WaitIdle()
		seen = append(seen, old.GetCurrentRevision())
		if zzverif.Choose(tag+".renew", 2) == 1 {
			// lock renewal: a committed transaction that hands out no revision
			l := old.GetResourceLock()
			rec, gerr := l.Get()
			zzverif.Assert(gerr == nil, "renew: get")
			zzverif.Assert(l.Update(*rec) == nil, "renew: update")
		}
	}
	zzverif.Assume(stored != 0) // something is stored
	if failed > 0 {
		zzverif.Cover("failed-writes-consumed-revisions")
		if engine == 1 {
			zzverif.Finding("engine_clock_counts_commits", true)
		}
	}

	// the old leader stops; a new node over the same store
	nb, newLE := newNode(s, "new")
	// it may have served follower reads before: revisions synced from the old leader, in any order
	nsync := zzverif.Choose("syncs", 3)
	for i := 0; i < nsync; i++ {
		nb.SetCurrentRevision(seen[zzverif.Choose("sync"+string(rune('0'+i)), len(seen))])
		zzverif.Cover("follower-sync")
	}
	elapsed += 1
	// the engine's timestamp oracle may fail once at any of its first calls of the take-over (a PD
	// hiccup during fail-over); the elector then retries the round
	of := zzverif.Choose("oracleFault", zzverif.Param("oraclefaults", 3)+1)
	ncall := 0
	s.TSOFault = func() bool { ncall++; return of != 0 && ncall == of }
	go newLE.Campaign()
	zzverif.FireTickers() // natively: wait for the old lease to run out
	zzverif.WaitIdle()
	if of != 0 && ncall >= of {
		zzverif.Cover("oracle-fault-during-takeover")
		if !newLE.IsLeader() {
			elapsed += 1
			go newLE.Campaign() // next round of the elector
			zzverif.WaitIdle()
		}
	}
	s.TSOFault = nil
	zzverif.Assert(newLE.IsLeader(), "second node becomes leader")
	zzverif.Assert(nb.GetCurrentRevision() >= stored, "everything written before remains visible at the new leader's revision")
	// guarded write on an existing key keeps working
	up, err := nb.Update(ctx, &proto.UpdateRequest{Kv: &proto.KeyValue{Key: key, Value: []byte("w"), Revision: stored}})
	zzverif.Assert(err == nil, "new leader: guarded update is not rejected (no revision drift)")
	zzverif.Assert(up.Succeeded, "new leader: guarded update of an existing key succeeds")
	zzverif.Assert(up.Header.Revision > stored, "new leader hands out revisions above everything stored")
	zzverif.WaitIdle()
	g, err := nb.Get(ctx, &proto.GetRequest{Key: key})
	zzverif.Assert(err == nil && g.Kv != nil && g.Kv.Revision == up.Header.Revision, "the new leader's write is readable")
	zzverif.Cover("done")
}

// VerifC15Gate: while a node takes over (after a fail-over, or restarted under the identity the
// lock record still names), a client write arrives at any moment. Write handlers serve it only
// when the node says it is leader; whenever it does, the revision it hands out must already be
// above everything stored: the guarded update of an existing key succeeds with a larger revision.
// Every interleaving of the election pass and the client within the delay bound.
func VerifC15Gate() {
	s := zzmodel.NewStore()
	elapsed := uint64(0)
	s.ClockFn = func() uint64 { return 1000 + elapsed }
	ctx := context.Background()
	old, oldLE := newNode(s, "old")
	go oldLE.Campaign()
	zzverif.WaitIdle()
	zzverif.Assert(oldLE.IsLeader(), "first node becomes leader")
	key := []byte("/r/a")
	elapsed += 5
	cr, err := old.Create(ctx, &proto.CreateRequest{Key: key, Value: []byte("v")})
	zzverif.Assert(err == nil && cr.Succeeded, "old leader: create")
	stored := cr.Header.Revision
	zzverif.WaitIdle()
	// the old leader stops; the next leader is another node, or the same node restarted
	id := "new"
	if zzverif.Choose("restartedSameIdentity", 2) == 1 {
		id = "old"
		zzverif.Cover("restart-same-identity")
	}
	nb, newLE := newNode(s, id)
	elapsed += 1
	s.Yield = zzverif.YieldAt
	done := make(chan struct{}, 2)
	zzverif.ExploreSchedules(zzverif.Param("preempt", 2))
	zzverif.Go("campaign", func() {
		newLE.Campaign()
		done <- struct{}{}
	})
	zzverif.Go("client", func() {
		if newLE.IsLeader() { // the gate of every write handler
			up, err := nb.Update(ctx, &proto.UpdateRequest{Kv: &proto.KeyValue{Key: key, Value: []byte("w"), Revision: stored}})
			zzverif.Assert(err == nil, "a node that says it is leader does not reject a guarded update for revision drift")
			zzverif.Assert(up.Succeeded && up.Header.Revision > stored, "a node that says it is leader hands out revisions above everything stored")
			zzverif.Cover("client-served-by-new-leader")
		} else {
			zzverif.Cover("client-turned-away")
		}
		done <- struct{}{}
	})
	<-done
	<-done
	zzverif.StopExploring()
	s.Yield = nil
	zzverif.WaitIdle()
	zzverif.Assert(newLE.IsLeader(), "second node becomes leader")
	zzverif.Cover("done")
}
