//go:build verif

// Package zzc15: revisions keep increasing across leader changes and restarts (property C15).
package zzc15

import (
	"context"
	"sync/atomic"
	"time"

	proto "github.com/kubewharf/kubebrain-client/api/v2rpc"

	"github.com/kubewharf/kubebrain/pkg/backend"
	"github.com/kubewharf/kubebrain/pkg/server/service/leader"
	"github.com/kubewharf/kubebrain/pkg/storage"
	badgerkv "github.com/kubewharf/kubebrain/pkg/storage/badger"
	"github.com/kubewharf/kubebrain/pkg/storage/memkv"
	"github.com/kubewharf/kubebrain/pkg/zzmodel"
	"github.com/kubewharf/kubebrain/pkg/zzverif"
)

// lockGate (native replays only): client-go's elector cannot be stopped, so a node that "stops"
// is a node whose background goroutines (the elector's renew loop) hang in every engine call;
// the harness thread's own calls pass. After the renew deadline the elector gives up and calls
// OnStoppedLeading, which parks (the production callback exits the process).
type lockGate struct {
	storage.KvStorage
	main     string
	frozen   int32
	commits  int32 // lock writes committed by the node's own goroutines
	holdTill atomic.Value
}

// hang stops the node's own goroutines once the node has "stopped"; before that it holds the
// elector back for a moment after it has acquired the lock, so that OnStartedLeading (which runs
// concurrently with the first renewal in client-go) has read the lock's timestamp before the
// renewal changes it — the order the elector model uses.
func (g *lockGate) hang(hold bool) {
	if zzverif.GoID() == g.main {
		return
	}
	if atomic.LoadInt32(&g.frozen) == 1 {
		select {}
	}
	if !hold {
		return
	}
	if t, ok := g.holdTill.Load().(time.Time); ok {
		if d := time.Until(t); d > 0 {
			time.Sleep(d)
		}
	}
}

type gateBatch struct {
	storage.BatchWrite
	g *lockGate
}

func (b *gateBatch) Commit(ctx context.Context) error {
	err := b.BatchWrite.Commit(ctx)
	if err == nil && zzverif.GoID() != b.g.main && atomic.AddInt32(&b.g.commits, 1) == 1 {
		b.g.holdTill.Store(time.Now().Add(150 * time.Millisecond))
	}
	return err
}
func (g *lockGate) Get(ctx context.Context, key []byte) ([]byte, error) {
	g.hang(true)
	return g.KvStorage.Get(ctx, key)
}
func (g *lockGate) BeginBatchWrite() storage.BatchWrite {
	g.hang(true)
	return &gateBatch{g.KvStorage.BeginBatchWrite(), g}
}
func (g *lockGate) GetTimestampOracle(ctx context.Context) (uint64, error) {
	g.hang(false) // the oracle call that follows the acquiring write belongs to the same step
	return g.KvStorage.GetTimestampOracle(ctx)
}

// stop makes the node's own goroutines hang from now on (natively; under gosym the elector model
// has no renew loop to stop).
func (g *lockGate) stop() {
	if g != nil {
		atomic.StoreInt32(&g.frozen, 1)
	}
}

func newNode(s storage.KvStorage, id string) (backend.Backend, leader.LeaderElection) {
	be, le, _ := newNodeGate(s, id)
	return be, le
}

func newNodeGate(s storage.KvStorage, id string) (backend.Backend, leader.LeaderElection, *lockGate) {
	var kv storage.KvStorage = s
	var g *lockGate
	stopped := func() {}
	if !zzverif.Symbolic() {
		g = &lockGate{KvStorage: s, main: zzverif.GoID()}
		kv = g
		stopped = func() { select {} }
	}
	be := backend.NewBackend(kv, backend.Config{Prefix: "/r", Identity: id, EnableEtcdCompatibility: true, WatchCacheSize: 4}, zzmodel.NoMetrics{})
	le := leader.NewLeaderElection(be, zzmodel.NoMetrics{}, func(context.Context) {}, stopped)
	return be, le, g
}

// VerifC15Restart: an old leader runs a history that includes failed writes (which consume
// revisions without touching the engine) and lock renewals, then stops; a new node — which may
// have served follower reads, syncing revisions in any order — becomes leader over the same store.
// Every revision it hands out is greater than every revision already stored: a guarded update of
// an existing key succeeds and a create gets a larger revision.
func VerifC15Restart() {
	cs := zzmodel.NewStore()
	// the engine: 0 = the contract store with a wall clock / PD timestamp oracle (advances at least
	// one unit per write attempt); 1 = the real Badger adapter; 2 = the real in-memory adapter (both
	// over the models of their libraries; natively a Badger directory / the real skiplist)
	engine := zzverif.Choose("engineClock", zzverif.Param("engines", 3))
	elapsed := uint64(0)
	cs.ClockFn = func() uint64 { return 1000 + elapsed }
	var s storage.KvStorage = cs
	switch engine {
	case 1:
		bd, err := badgerkv.NewKvStorage(badgerkv.Config{Dir: zzverif.TempDir()})
		zzverif.Assert(err == nil, "badger opens")
		s = bd
		zzverif.Cover("engine-badger")
	case 2:
		s = memkv.NewKvStorage()
		zzverif.Cover("engine-memkv")
	}
	// engines that read the wall clock: the ghost clock is pinned to concrete, increasing instants
	// (revisions index the pending-event ring); natively real time passes
	tick := func(d uint64) {
		elapsed += d
		zzverif.SetClock(1000 + elapsed)
	}
	tick(0)
	ctx := context.Background()
	old, oldLE, oldGate := newNodeGate(s, "old")
	go oldLE.Campaign()
	zzverif.WaitIdle()
	zzverif.Assert(oldLE.IsLeader(), "first node becomes leader")
	// natively the real elector would renew once per second from here on (and count as committed
	// transactions): its goroutines hang from now on, the lock renewals of the tenure are the
	// explicit ones below
	oldGate.stop()
	base := old.GetCurrentRevision()

	// the old leader's tenure
	key := []byte("/r/a")
	var stored uint64 // newest stored revision of key
	seen := []uint64{base}
	n := zzverif.Param("attempts", 3)
	failed := 0
	// a run of refused writes first (a controller retrying a stale update): each consumes a
	// revision without touching the engine
	nf := zzverif.Param("failures", 0)
	for i := 0; i < nf; i++ {
		tick(1)
		resp, err := old.Update(ctx, &proto.UpdateRequest{Kv: &proto.KeyValue{Key: []byte("/r/other"), Value: []byte("v"), Revision: 3}})
		zzverif.Assert(err == nil && !resp.Succeeded, "old leader: a stale update of a missing key is refused")
		failed++
		zzverif.WaitIdle()
	}
	base += uint64(nf)
	for i := 0; i < n; i++ {
		tag := "w" + string(rune('0'+i))
		tick(1 + uint64(zzverif.Choose(tag+".idle", 2))*5)
		// any expectation: matching or stale (symbolic), a little ahead of everything handed out, or far
		// ahead (a concrete value: the revision counter may not become symbolic, it indexes the
		// pending-event ring)
		exp := zzverif.U64(tag + ".exp")
		if zzverif.Choose(tag+".farAhead", 2) == 1 {
			exp = base + 5000
			zzverif.Cover("far-future-expectation")
		} else {
			zzverif.Assume(exp <= base+uint64(n))
		}
		resp, err := old.Update(ctx, &proto.UpdateRequest{Kv: &proto.KeyValue{Key: key, Value: []byte("v"), Revision: exp}})
		if err != nil {
			zzverif.Assert(exp > base+uint64(i), "old leader: a write is rejected with an error only for a future expected revision")
			failed++
		} else if resp.Succeeded {
			stored = resp.Header.Revision
		} else {
			failed++
		}
		zzverif.WaitIdle()
		seen = append(seen, old.GetCurrentRevision())
		if zzverif.Choose(tag+".renew", 2) == 1 {
			// lock renewal: a committed transaction that hands out no revision
			l := old.GetResourceLock()
			rec, gerr := l.Get()
			zzverif.Assert(gerr == nil, "renew: get")
			zzverif.Assert(l.Update(*rec) == nil, "renew: update")
		}
	}
	zzverif.Assume(stored != 0) // something is stored
	if failed > 0 {
		zzverif.Cover("failed-writes-consumed-revisions")
		if engine == 1 {
			zzverif.Finding("engine_clock_counts_commits", true)
		}
	}

	// the old leader stops; a new node over the same store
	tick(uint64(n + nf + 2)) // at least as many clock units have passed as revisions were handed out
	nb, newLE := newNode(s, "new")
	// it may have served follower reads before: revisions synced from the old leader, in any order
	nsync := zzverif.Choose("syncs", 3)
	for i := 0; i < nsync; i++ {
		nb.SetCurrentRevision(seen[zzverif.Choose("sync"+string(rune('0'+i)), len(seen))])
		zzverif.Cover("follower-sync")
	}
	tick(1)
	// the engine's timestamp oracle may fail once at any of its first calls of the take-over (a PD
	// hiccup during fail-over); the elector then retries the round
	of := zzverif.Choose("oracleFault", zzverif.Param("oraclefaults", 3)+1)
	ncall := 0
	fault := func() bool { ncall++; return of != 0 && ncall == of }
	if zzverif.Symbolic() {
		cs.TSOFault = fault
		go newLE.Campaign()
		zzverif.FireTickers()
		zzverif.WaitIdle()
		if of != 0 && ncall >= of {
			zzverif.Cover("oracle-fault-during-takeover")
			if !newLE.IsLeader() {
				tick(1)
				go newLE.Campaign() // next round of the elector
				zzverif.WaitIdle()
			}
		}
	} else {
		// natively the real elector first sits out the old lease (8 s from the moment it sees the
		// record), asking the engine once per period; the oracle calls are counted from the first
		// pass that can acquire, as in the model; after a failed pass the elector retries by itself
		go newLE.Campaign()
		time.Sleep(8100 * time.Millisecond)
		cs.TSOFault = fault
		time.Sleep(time.Duration(zzverif.Param("native_takeover_ms", 6500)) * time.Millisecond)
	}
	cs.TSOFault = nil
	zzverif.Observe("takeover", newLE.IsLeader(), nb.GetCurrentRevision() >= stored, nb.GetCurrentRevision() > base)
	zzverif.Assert(newLE.IsLeader(), "second node becomes leader")
	zzverif.Assert(nb.GetCurrentRevision() >= stored, "everything written before remains visible at the new leader's revision")
	// guarded write on an existing key keeps working
	up, err := nb.Update(ctx, &proto.UpdateRequest{Kv: &proto.KeyValue{Key: key, Value: []byte("w"), Revision: stored}})
	zzverif.Assert(err == nil, "new leader: guarded update is not rejected (no revision drift)")
	zzverif.Assert(up.Succeeded, "new leader: guarded update of an existing key succeeds")
	zzverif.Assert(up.Header.Revision > stored, "new leader hands out revisions above everything stored")
	zzverif.WaitIdle()
	g, err := nb.Get(ctx, &proto.GetRequest{Key: key})
	zzverif.Assert(err == nil && g.Kv != nil && g.Kv.Revision == up.Header.Revision, "the new leader's write is readable")
	zzverif.Cover("done")
}

// VerifC15Gate: while a node takes over (after a fail-over, or restarted under the identity the
// lock record still names), a client write arrives at any moment. Write handlers serve it only
// when the node says it is leader; whenever it does, the revision it hands out must already be
// above everything stored: the guarded update of an existing key succeeds with a larger revision.
// Every interleaving of the election pass and the client within the delay bound.
func VerifC15Gate() {
	s := zzmodel.NewStore()
	elapsed := uint64(0)
	s.ClockFn = func() uint64 { return 1000 + elapsed }
	ctx := context.Background()
	old, oldLE := newNode(s, "old")
	go oldLE.Campaign()
	zzverif.WaitIdle()
	zzverif.Assert(oldLE.IsLeader(), "first node becomes leader")
	key := []byte("/r/a")
	elapsed += 5
	cr, err := old.Create(ctx, &proto.CreateRequest{Key: key, Value: []byte("v")})
	zzverif.Assert(err == nil && cr.Succeeded, "old leader: create")
	stored := cr.Header.Revision
	zzverif.WaitIdle()
	// the old leader stops; the next leader is another node, or the same node restarted
	id := "new"
	if zzverif.Choose("restartedSameIdentity", 2) == 1 {
		id = "old"
		zzverif.Cover("restart-same-identity")
	}
	nb, newLE := newNode(s, id)
	elapsed += 1
	s.Yield = zzverif.YieldAt
	done := make(chan struct{}, 2)
	zzverif.ExploreSchedules(zzverif.Param("preempt", 2))
	zzverif.Go("campaign", func() {
		newLE.Campaign()
		done <- struct{}{}
	})
	zzverif.Go("client", func() {
		if newLE.IsLeader() { // the gate of every write handler and of the /status handler followers ask
			zzverif.Assert(nb.GetCurrentRevision() >= stored, "a node that says it is leader publishes a read revision that covers everything stored")
			up, err := nb.Update(ctx, &proto.UpdateRequest{Kv: &proto.KeyValue{Key: key, Value: []byte("w"), Revision: stored}})
			zzverif.Assert(err == nil, "a node that says it is leader does not reject a guarded update for revision drift")
			zzverif.Assert(up.Succeeded && up.Header.Revision > stored, "a node that says it is leader hands out revisions above everything stored")
			zzverif.Cover("client-served-by-new-leader")
		} else {
			zzverif.Cover("client-turned-away")
		}
		done <- struct{}{}
	})
	<-done
	<-done
	zzverif.StopExploring()
	s.Yield = nil
	zzverif.WaitIdle()
	zzverif.Assert(newLE.IsLeader(), "second node becomes leader")
	zzverif.Cover("done")
}
