//go:build verif

// Package zzc20 drives both APIs with hostile request contents over the real backend and the
// real prometheus metrics wrapper (property C20).
package zzc20

import (
	"context"
	"io"
	"strings"

	proto "github.com/kubewharf/kubebrain-client/api/v2rpc"
	"go.etcd.io/etcd/api/v3/etcdserverpb"
	"go.etcd.io/etcd/api/v3/mvccpb"
	"google.golang.org/grpc/metadata"

	"github.com/kubewharf/kubebrain/pkg/backend"
	"github.com/kubewharf/kubebrain/pkg/metrics"
	"github.com/kubewharf/kubebrain/pkg/metrics/prometheus"
	"github.com/kubewharf/kubebrain/pkg/server/brain"
	"github.com/kubewharf/kubebrain/pkg/server/etcd"
	smetrics "github.com/kubewharf/kubebrain/pkg/storage/metrics"
	"github.com/kubewharf/kubebrain/pkg/zzmodel"
	"github.com/kubewharf/kubebrain/pkg/zzsrv"
	"github.com/kubewharf/kubebrain/pkg/zzverif"
)

type stream struct{ ctx context.Context }

func (s *stream) SetHeader(metadata.MD) error  { return nil }
func (s *stream) SendHeader(metadata.MD) error { return nil }
func (s *stream) SetTrailer(metadata.MD)       {}
func (s *stream) Context() context.Context     { return s.ctx }
func (s *stream) SendMsg(m interface{}) error  { return nil }
func (s *stream) RecvMsg(m interface{}) error  { return nil }

type brainWatch struct{ stream }

func (w *brainWatch) Send(*proto.WatchResponse) error { return nil }

type brainRange struct{ stream }

func (w *brainRange) Send(*proto.StreamRangeResponse) error { return nil }

type etcdWatch struct {
	stream
	reqs      []*etcdserverpb.WatchRequest
	nsent     int
	failAfter int // Send fails once more than this many responses were sent (-1: never)
}

func (w *etcdWatch) Send(*etcdserverpb.WatchResponse) error {
	w.nsent++
	if w.failAfter >= 0 && w.nsent > w.failAfter {
		return io.ErrClosedPipe // the client's connection broke
	}
	return nil
}

// Recv hands out the queued requests; then it blocks, as a real stream does, until the client
// goes away.
func (w *etcdWatch) Recv() (*etcdserverpb.WatchRequest, error) {
	if len(w.reqs) == 0 {
		<-w.ctx.Done()
		return nil, io.EOF
	}
	r := w.reqs[0]
	w.reqs = w.reqs[1:]
	return r, nil
}

type world struct {
	be backend.Backend
	bs *brain.Server
	es *etcd.RPCServer
}

// key draws an arbitrary byte string of length 0..2 (any byte values, also invalid UTF-8 and
// bytes below the documented alphabet).
func key(tag string) []byte {
	if zzverif.Param("keymenu", 0) == 1 {
		// pairs of requests: the request key is empty (no leading '/': the shapes the etcd shim
		// refuses) or an ordinary key; the other byte strings are fixed
		if strings.HasSuffix(tag, ".key") {
			return [][]byte{{}, []byte("/r/a")}[zzverif.Choose(tag+".menu", 2)]
		}
		return []byte("/r/z")
	}
	n := zzverif.Choose(tag+".len", zzverif.Param("keylen", 2)+1)
	return zzverif.Bytes(tag, n)
}

// value draws a request value: an arbitrary byte string of length 0..2, or nine arbitrary bytes
// (the length of the storage layer's reserved deletion mark).
func value(tag string) []byte {
	if zzverif.Param("val9", 0) == 1 && zzverif.Choose(tag+".nine", 2) == 1 {
		return zzverif.Bytes(tag, 9)
	}
	return key(tag)
}

func (w *world) request(tag string) {
	ctx := context.Background()
	k := key(tag + ".key")
	rev := zzverif.I64(tag + ".rev")
	switch zzverif.Choose(tag+".handler", zzverif.Param("handlers", 15)) {
	case 0:
		w.bs.Create(ctx, &proto.CreateRequest{Key: k, Value: value(tag + ".val")})
	case 1:
		w.bs.Update(ctx, &proto.UpdateRequest{Kv: &proto.KeyValue{Key: k, Value: value(tag + ".val"), Revision: uint64(rev)}})
	case 2:
		if zzverif.Choose(tag+".nilkv", 2) == 1 {
			w.bs.Update(ctx, &proto.UpdateRequest{})
		} else {
			w.bs.Delete(ctx, &proto.DeleteRequest{Key: k, Revision: uint64(rev)})
		}
	case 3:
		w.bs.Compact(ctx, &proto.CompactRequest{Revision: uint64(rev)})
	case 4:
		w.bs.Get(ctx, &proto.GetRequest{Key: k, Revision: uint64(rev)})
	case 5:
		w.bs.Range(ctx, &proto.RangeRequest{Key: k, End: key(tag + ".end"), Revision: uint64(rev), Limit: zzverif.I64(tag + ".limit")})
	case 6:
		w.bs.Count(ctx, &proto.CountRequest{Key: k, End: key(tag + ".end")})
	case 7:
		w.bs.ListPartition(ctx, &proto.ListPartitionRequest{Key: k, End: key(tag + ".end")})
	case 8:
		w.bs.RangeStream(&proto.RangeRequest{Key: k, End: key(tag + ".end"), Revision: uint64(rev)}, &brainRange{stream{ctx}})
	case 9:
		wctx, cancel := context.WithCancel(ctx)
		if zzverif.Choose(tag+".goneBefore", 2) == 1 {
			cancel() // the client is gone before its watch is registered
		}
		done := make(chan struct{})
		go func() {
			w.bs.Watch(&proto.WatchRequest{Key: k, Revision: uint64(rev)}, &brainWatch{stream{wctx}})
			close(done)
		}()
		zzverif.WaitIdle()
		cancel()
		zzverif.WaitIdle()
	case 10:
		// etcd transaction of one of the supported shapes with hostile values
		cmp := &etcdserverpb.Compare{Target: etcdserverpb.Compare_MOD, Result: etcdserverpb.Compare_EQUAL, Key: k,
			TargetUnion: &etcdserverpb.Compare_ModRevision{ModRevision: rev}}
		put := &etcdserverpb.RequestOp{Request: &etcdserverpb.RequestOp_RequestPut{RequestPut: &etcdserverpb.PutRequest{Key: k, Value: value(tag + ".val")}}}
		get := &etcdserverpb.RequestOp{Request: &etcdserverpb.RequestOp_RequestRange{RequestRange: &etcdserverpb.RangeRequest{Key: k}}}
		del := &etcdserverpb.RequestOp{Request: &etcdserverpb.RequestOp_RequestDeleteRange{RequestDeleteRange: &etcdserverpb.DeleteRangeRequest{Key: k}}}
		switch zzverif.Choose(tag+".shape", 4) {
		case 0:
			encodableTxn(w.es.Txn(ctx, &etcdserverpb.TxnRequest{Compare: []*etcdserverpb.Compare{cmp}, Success: []*etcdserverpb.RequestOp{put}}))
		case 1:
			encodableTxn(w.es.Txn(ctx, &etcdserverpb.TxnRequest{Compare: []*etcdserverpb.Compare{cmp}, Success: []*etcdserverpb.RequestOp{put}, Failure: []*etcdserverpb.RequestOp{get}}))
		case 2:
			encodableTxn(w.es.Txn(ctx, &etcdserverpb.TxnRequest{Compare: []*etcdserverpb.Compare{cmp}, Success: []*etcdserverpb.RequestOp{del}, Failure: []*etcdserverpb.RequestOp{get}}))
		default:
			encodableTxn(w.es.Txn(ctx, &etcdserverpb.TxnRequest{Success: []*etcdserverpb.RequestOp{get, del}}))
		}
	case 11:
		// structurally odd transactions: missing sub-messages
		switch zzverif.Choose(tag+".odd", 3) {
		case 0:
			encodableTxn(w.es.Txn(ctx, &etcdserverpb.TxnRequest{}))
		case 1:
			encodableTxn(w.es.Txn(ctx, &etcdserverpb.TxnRequest{Compare: []*etcdserverpb.Compare{{}}, Success: []*etcdserverpb.RequestOp{{}}}))
		default:
			encodableTxn(w.es.Txn(ctx, &etcdserverpb.TxnRequest{Compare: []*etcdserverpb.Compare{{Target: etcdserverpb.Compare_MOD}}, Success: []*etcdserverpb.RequestOp{{}}, Failure: []*etcdserverpb.RequestOp{{}}}))
		}
	case 12:
		r := &etcdserverpb.RangeRequest{Key: k, Revision: rev, Limit: zzverif.I64(tag + ".limit")}
		switch zzverif.Choose(tag+".range", 3) {
		case 1:
			r.RangeEnd = key(tag + ".end")
		case 2:
			r.RangeEnd, r.CountOnly = key(tag+".end"), true
		}
		encodableRange(w.es.Range(ctx, r))
	case 14:
		// the lease and cluster handlers of the etcd API (answered without touching the backend)
		switch zzverif.Choose(tag+".misc", 6) {
		case 0:
			w.es.LeaseGrant(ctx, &etcdserverpb.LeaseGrantRequest{TTL: rev, ID: zzverif.I64(tag + ".lease")})
		case 1:
			w.es.LeaseRevoke(ctx, &etcdserverpb.LeaseRevokeRequest{ID: rev})
		case 2:
			w.es.LeaseKeepAlive(nil)
		case 3:
			w.es.LeaseTimeToLive(ctx, &etcdserverpb.LeaseTimeToLiveRequest{ID: rev})
		case 4:
			w.es.LeaseLeases(ctx, &etcdserverpb.LeaseLeasesRequest{})
		default:
			w.es.MemberList(ctx, &etcdserverpb.MemberListRequest{})
		}
	default:
		wctx, cancel := context.WithCancel(ctx)
		if zzverif.Choose(tag+".goneBefore", 2) == 1 {
			cancel() // the client is gone before its watch is registered
		}
		create := &etcdserverpb.WatchRequest{RequestUnion: &etcdserverpb.WatchRequest_CreateRequest{
			CreateRequest: &etcdserverpb.WatchCreateRequest{Key: k, RangeEnd: key(tag + ".end"), StartRevision: rev}}}
		ws := &etcdWatch{stream: stream{wctx}, reqs: []*etcdserverpb.WatchRequest{create}, failAfter: -1}
		variants := 1
		if zzverif.Param("watchvariants", 1) == 1 {
			ws.failAfter = zzverif.Choose(tag+".sendFails", 3) - 1
			variants = 3
		}
		switch zzverif.Choose(tag+".stream", variants) {
		case 1: // the client cancels a watch id (its own or any other number)
			ws.reqs = append(ws.reqs, &etcdserverpb.WatchRequest{RequestUnion: &etcdserverpb.WatchRequest_CancelRequest{
				CancelRequest: &etcdserverpb.WatchCancelRequest{WatchId: zzverif.I64(tag + ".cancelId")}}})
		case 2: // a request type the shim does not support comes first
			ws.reqs = append([]*etcdserverpb.WatchRequest{{RequestUnion: &etcdserverpb.WatchRequest_ProgressRequest{ProgressRequest: &etcdserverpb.WatchProgressRequest{}}}}, ws.reqs...)
		}
		go func() { w.es.Watch(ws) }()
		zzverif.WaitIdle()
		if zzverif.Choose(tag+".traffic", 2) == 1 {
			// a write under the watched key while the stream is open
			w.bs.Create(ctx, &proto.CreateRequest{Key: append(append([]byte(nil), k...), 'x'), Value: []byte("v")})
			zzverif.WaitIdle()
		}
		cancel()
		zzverif.WaitIdle()
	}
}

// VerifC20NoCrash: arbitrary request contents through either API, with production metrics
// enabled: no panic (including inside metric emission) and the node keeps serving.
func VerifC20NoCrash() {
	m := prometheus.NewMetrics()
	// the production stack: the engine behind the storage metrics wrapper (cmd/option)
	cs := zzmodel.NewStore()
	if zzverif.Param("iterfault", 0) == 1 && zzverif.Choose("engineFault", 2) == 1 {
		// one transient engine fault in the middle of some scan of the request
		fired := false
		cs.IterFault = func(start []byte, n int) bool {
			if fired || n != 0 {
				return false
			}
			fired = true
			return true
		}
	}
	st := smetrics.NewKvStorage(cs, m)
	be := backend.NewBackend(st, backend.Config{Prefix: "/r", EnableEtcdCompatibility: true, WatchCacheSize: zzverif.Param("cache", 4)}, m)
	be.SetCurrentRevision(5)
	peers := &zzsrv.Peers{Leader: true}
	w := &world{be: be, bs: brain.New(be, m, peers), es: etcd.New(be, m, peers)}
	// the node has been serving for a while: earlier writes have filled (and wrapped) the event cache
	for i := 0; i < zzverif.Param("warmup", 0); i++ {
		cr, err := w.bs.Create(context.Background(), &proto.CreateRequest{Key: []byte{'/', 'r', '/', 'w', byte('0' + i)}, Value: []byte("v")})
		zzverif.Assert(err == nil && cr.Succeeded, "warm-up create")
		zzverif.WaitIdle()
	}
	n := zzverif.Param("requests", 1)
	for i := 0; i < n; i++ {
		if zzverif.Param("roles", 0) == 1 {
			// the request may arrive while the node is a follower (with or without the etcd proxy)
			peers.Leader = zzverif.Choose("q"+string(rune('0'+i))+".follower", 2) == 0
			peers.Proxy = !peers.Leader && zzverif.Choose("q"+string(rune('0'+i))+".proxy", 2) == 1
		}
		w.request("q" + string(rune('0'+i)))
		zzverif.WaitIdle()
	}
	peers.Leader = true
	cs.IterFault = nil // the engine is healthy again
	if zzverif.Param("ticks", 0) == 1 {
		zzverif.FireTickers() // the periodic compaction loop of the native API server runs once
		zzverif.WaitIdle()
	}
	// the node keeps serving: a create followed by a get on a fresh key works
	// ... and a new watch is registered and sees that create
	fresh := []byte("/r/fresh")
	wch, werr := be.Watch(context.Background(), "/r/fresh", 0)
	zzverif.Assert(werr == nil, "a later watch is accepted")
	cr, err := w.bs.Create(context.Background(), &proto.CreateRequest{Key: fresh, Value: []byte("v")})
	zzverif.Assert(err == nil && cr.Succeeded, "a later create still succeeds")
	zzverif.WaitIdle()
	zzverif.Assert(be.GetCurrentRevision() >= cr.Header.Revision, "the later write becomes readable")
	nev := 0
	for more := true; more; {
		select {
		case b, ok := <-wch:
			zzverif.Assert(ok, "the later watch stays open")
			nev += len(b)
		default:
			more = false
		}
	}
	zzverif.Assert(nev == 1, "the later watch receives the later write")
	g, err := w.bs.Get(context.Background(), &proto.GetRequest{Key: fresh})
	zzverif.Assert(err == nil && g.Kv != nil && string(g.Kv.Value) == "v", "a later read is answered correctly")
	zzverif.Cover("done")
}

// VerifC20EmitReplay (native replays only): emits the given metrics — kind, name and label names
// taken from the replay file — through the real prometheus wrapper in one process; a metric name
// emitted with two different sets of label names (or as two kinds) panics inside client_golang.
func VerifC20EmitReplay() {
	m := prometheus.NewMetrics()
	n := int(zzverif.U64("n"))
	for i := 0; i < n; i++ {
		tag := "e" + string(rune('0'+i))
		name := string(zzverif.Bytes(tag+".name", int(zzverif.U64(tag+".name.len"))))
		var tags []metrics.T
		nl := int(zzverif.U64(tag + ".labels"))
		for j := 0; j < nl; j++ {
			lt := tag + ".l" + string(rune('0'+j))
			tags = append(tags, metrics.Tag(string(zzverif.Bytes(lt, int(zzverif.U64(lt+".len")))), "x"))
		}
		switch zzverif.U64(tag + ".kind") {
		case 0:
			m.EmitCounter(name, 1, tags...)
		case 1:
			m.EmitGauge(name, 1, tags...)
		default:
			m.EmitHistogram(name, 1, tags...)
		}
	}
}

// VerifC20Concurrent: the first two requests of a node arrive at the same time (after a restart
// nothing has been emitted yet, so both are the first to emit their metrics): every interleaving
// of the two handlers within the delay bound, production metrics enabled. No panic (a metric
// registered twice panics inside the prometheus client), and the node keeps serving.
func VerifC20Concurrent() {
	m := prometheus.NewMetrics()
	st := smetrics.NewKvStorage(zzmodel.NewStore(), m)
	be := backend.NewBackend(st, backend.Config{Prefix: "/r", EnableEtcdCompatibility: true, WatchCacheSize: 4}, m)
	be.SetCurrentRevision(5)
	peers := &zzsrv.Peers{Leader: true}
	w := &world{be: be, bs: brain.New(be, m, peers), es: etcd.New(be, m, peers)}
	ctx := context.Background()
	kind := zzverif.Choose("kind", 4)
	// Natively the goroutines cannot be steered into the window between "not registered yet" and
	// "registered": more requests start at the same moment (and the driver repeats the run).
	n := 2
	if !zzverif.Symbolic() {
		n = zzverif.Param("native_requests", 12)
	}
	done := make(chan struct{}, n)
	start := make(chan struct{})
	zzverif.ExploreSchedules(zzverif.Param("preempt", 1))
	for i := 0; i < n; i++ {
		key := []byte{'/', 'r', '/', byte('a' + i)}
		zzverif.Go("q"+string(rune('0'+i)), func() {
			if !zzverif.Symbolic() {
				<-start
			}
			switch kind {
			case 0:
				w.bs.Get(ctx, &proto.GetRequest{Key: key})
			case 1:
				w.es.Range(ctx, &etcdserverpb.RangeRequest{Key: key})
			case 2:
				w.bs.Create(ctx, &proto.CreateRequest{Key: key, Value: []byte("v")})
			default:
				w.bs.Range(ctx, &proto.RangeRequest{Key: []byte("/r/"), End: []byte("/r0")})
			}
			done <- struct{}{}
		})
	}
	close(start)
	for i := 0; i < n; i++ {
		<-done
	}
	zzverif.StopExploring()
	zzverif.WaitIdle()
	cr, err := w.bs.Create(ctx, &proto.CreateRequest{Key: []byte("/r/fresh"), Value: []byte("v")})
	zzverif.Assert(err == nil && cr.Succeeded, "a later create still succeeds")
	zzverif.Cover("done")
}

// What a handler returns is encoded by gRPC after the handler has returned, outside anything the
// handler could recover: a nil element in a repeated message field makes the generated encoder
// dereference nil and the process dies. Every answer must be encodable (natively it is encoded).
func encodableKvs(kvs []*mvccpb.KeyValue) {
	for _, kv := range kvs {
		zzverif.Assert(kv != nil, "an answer holds no nil key-value (gRPC's encoder would crash the process)")
	}
}

func encodableRange(r *etcdserverpb.RangeResponse, err error) {
	if err != nil || r == nil {
		return
	}
	encodableKvs(r.Kvs)
	if !zzverif.Symbolic() {
		r.Marshal()
	}
}

func encodableTxn(r *etcdserverpb.TxnResponse, err error) {
	if err != nil || r == nil {
		return
	}
	for _, op := range r.Responses {
		zzverif.Assert(op != nil, "an answer holds no nil response op (gRPC's encoder would crash the process)")
		if op == nil {
			continue
		}
		if rr := op.GetResponseRange(); rr != nil {
			encodableKvs(rr.Kvs)
		}
		if dr := op.GetResponseDeleteRange(); dr != nil {
			encodableKvs(dr.PrevKvs)
		}
	}
	if !zzverif.Symbolic() {
		r.Marshal()
	}
}
