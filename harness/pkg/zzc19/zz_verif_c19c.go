//go:build verif

package zzc19

import (
	"sync"

	proto "github.com/kubewharf/kubebrain-client/api/v2rpc"

	"github.com/kubewharf/kubebrain/pkg/backend"
	"github.com/kubewharf/kubebrain/pkg/storage"
	"github.com/kubewharf/kubebrain/pkg/storage/memkv"
	"github.com/kubewharf/kubebrain/pkg/zzmodel"
	"github.com/kubewharf/kubebrain/pkg/zzverif"
)

// vStallStore holds back the first write batch until released (a slow storage transaction; the
// write already holds its revision).
type vStallStore struct {
	storage.KvStorage
	mu      sync.Mutex
	first   bool
	release chan struct{}
}

func (s *vStallStore) BeginBatchWrite() storage.BatchWrite {
	s.mu.Lock()
	stall := !s.first
	s.first = true
	s.mu.Unlock()
	if stall {
		<-s.release
	}
	return s.KvStorage.BeginBatchWrite()
}

// VerifC19FullBatch: one slow write holds the lowest pending revision while a full broadcast batch
// of later writes (the sequencer's batch size, 300) completes, then is released, and one more write
// follows: the sequencer's batch buffer, the fan-out and a watch run concurrently. No conflicting
// unsynchronised accesses, and the watch sees every event once, in order.
func VerifC19FullBatch() {
	n := zzverif.Param("writes", 301)
	st := &vStallStore{KvStorage: memkv.NewKvStorage(), release: make(chan struct{})}
	be := backend.NewBackend(st, backend.Config{Prefix: "/r", EnableEtcdCompatibility: true, WatchCacheSize: 2}, zzmodel.NoMetrics{})
	be.SetCurrentRevision(5)
	ch, err := be.Watch(ctx, "/r/", 0)
	zzverif.Assert(err == nil, "watch accepted")
	key := func(i int) []byte {
		return []byte{'/', 'r', '/', 'k', byte('a' + i/26/26), byte('a' + i/26%26), byte('a' + i%26)}
	}
	done := make(chan struct{}, 1)
	zzverif.Go("slow", func() {
		_, err := be.Create(ctx, &proto.CreateRequest{Key: key(0), Value: []byte("v")})
		zzverif.Assert(err == nil, "slow create")
		done <- struct{}{}
	})
	zzverif.WaitIdle() // the slow write holds revision 6 inside the store
	for i := 1; i < n; i++ {
		_, err := be.Create(ctx, &proto.CreateRequest{Key: key(i), Value: []byte("v")})
		zzverif.Assert(err == nil, "create")
	}
	close(st.release)
	<-done
	zzverif.WaitIdle()
	_, err = be.Create(ctx, &proto.CreateRequest{Key: key(n), Value: []byte("v")})
	zzverif.Assert(err == nil, "one more create")
	zzverif.WaitIdle()
	next := uint64(6)
	for more := true; more; {
		select {
		case batch := <-ch:
			for _, e := range batch {
				zzverif.Assert(e.Revision == next, "the watch sees every event once, in revision order")
				next++
			}
			zzverif.WaitIdle()
		default:
			more = false
		}
	}
	zzverif.Assert(next == uint64(6+n+1), "the watch sees all events")
	zzverif.Cover("done")
}
