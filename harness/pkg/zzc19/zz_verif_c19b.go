//go:build verif

package zzc19

import (
	"sync"

	proto "github.com/kubewharf/kubebrain-client/api/v2rpc"

	"github.com/kubewharf/kubebrain/pkg/backend"
	"github.com/kubewharf/kubebrain/pkg/storage/memkv"
	"github.com/kubewharf/kubebrain/pkg/zzmodel"
	"github.com/kubewharf/kubebrain/pkg/zzverif"
)

// VerifC19Backend: a mix of concurrent requests (write, point read, range read, watch, two
// compactions, three writers) on one node over the real in-memory engine, background loops running.
func VerifC19Backend() {
	be := backend.NewBackend(memkv.NewKvStorage(), backend.Config{Prefix: "/r", EnableEtcdCompatibility: true, WatchCacheSize: 1 + zzverif.Choose("cache", 2),
		// a configuration slice with spare capacity, as repeated command-line flags produce
		SkippedPrefixes: append(make([]string, 0, 4), "/r/skipped")}, zzmodel.NoMetrics{})
	be.SetCurrentRevision(5)
	key := []byte("/r/a")
	_, err := be.Create(ctx, &proto.CreateRequest{Key: key, Value: []byte("v")})
	zzverif.Assert(err == nil, "setup create")
	zzverif.WaitIdle()
	mix := zzverif.Choose("mix", 4)
	var wg sync.WaitGroup
	n := 3
	wg.Add(n)
	zzverif.ExploreSchedules(zzverif.Param("preempt", 1))
	zzverif.Foreground("collectStorageWriteEvents")
	zzverif.Foreground("Stream")
	zzverif.Go("t0", func() {
		be.Update(ctx, &proto.UpdateRequest{Kv: &proto.KeyValue{Key: key, Value: []byte("w"), Revision: 6}})
		wg.Done()
	})
	zzverif.Go("t1", func() {
		switch mix {
		case 0:
			be.Get(ctx, &proto.GetRequest{Key: key})
		case 1:
			be.List(ctx, &proto.RangeRequest{Key: []byte("/r/"), End: []byte("/r0")})
		case 2:
			be.Compact(ctx, 6)
		default: // three writers at once: update ∥ create of another key ∥ delete
			be.Create(ctx, &proto.CreateRequest{Key: []byte("/r/b"), Value: []byte("x")})
		}
		wg.Done()
	})
	zzverif.Go("t2", func() {
		switch mix {
		case 0:
			be.Watch(ctx, "/r/", 6)
		case 1:
			be.Count(ctx, &proto.CountRequest{Key: []byte("/r/"), End: []byte("/r0")})
		case 2:
			be.Compact(ctx, 0)
		default:
			be.Delete(ctx, &proto.DeleteRequest{Key: key, Revision: 6})
		}
		wg.Done()
	})
	wg.Wait()
	zzverif.StopExploring()
	zzverif.WaitIdle()
	zzverif.Cover("done")
}
