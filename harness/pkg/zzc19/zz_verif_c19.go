//go:build verif

// Package zzc19: concurrent requests are free of data races (property C19) — happens-before
// monitor of gosym over explored schedules.
package zzc19

import (
	"context"
	"sync"

	"github.com/kubewharf/kubebrain/pkg/storage"
	"github.com/kubewharf/kubebrain/pkg/storage/memkv"
	"github.com/kubewharf/kubebrain/pkg/zzverif"
)

var ctx = context.Background()

// VerifC19Memkv: reader ∥ writer ∥ iterator on the in-process engine.
func VerifC19Memkv() {
	s := memkv.NewKvStorage()
	b := s.BeginBatchWrite()
	b.Put([]byte("a"), []byte("1"), 0)
	b.Commit(ctx)
	var wg sync.WaitGroup
	wg.Add(3)
	zzverif.ExploreSchedules(zzverif.Param("preempt", 1))
	zzverif.Go("reader", func() {
		s.Get(ctx, []byte("a"))
		// a bound another reader iterates from, never written: it must not be found
		_, err := s.Get(ctx, []byte("a0"))
		zzverif.Assert(err == storage.ErrKeyNotFound, "a key that was never written is not found, whatever other readers do")
		wg.Done()
	})
	zzverif.Go("writer", func() {
		w := s.BeginBatchWrite()
		w.Put([]byte("b"), []byte("2"), 0)
		w.CAS([]byte("a"), []byte("3"), []byte("1"), 0)
		w.Commit(ctx)
		wg.Done()
	})
	zzverif.Go("iterator", func() {
		// the start bound lies between stored keys
		it, err := s.Iter(ctx, []byte("a0"), []byte("z"), 0, 0)
		if err == nil {
			for it.Next(ctx) == nil {
				k := string(it.Key())
				zzverif.Assert(k == "b", "an iterator yields only keys that were written, inside its interval")
			}
			it.Close()
		}
		wg.Done()
	})
	wg.Wait()
	zzverif.StopExploring()
	zzverif.Cover("done")
}

var _ storage.KvStorage

// VerifC19MemkvTTL: a key written with a TTL expires (timer goroutine) while a reader and an
// iterator are inside the engine.
func VerifC19MemkvTTL() {
	s := memkv.NewKvStorage()
	b := s.BeginBatchWrite()
	b.Put([]byte("a"), []byte("1"), 0)
	b.Put([]byte("t"), []byte("2"), 1) // expires after one second
	b.Commit(ctx)
	var wg sync.WaitGroup
	wg.Add(2)
	zzverif.ExploreSchedules(zzverif.Param("preempt", 1))
	zzverif.FireTimers()
	zzverif.Go("reader", func() {
		s.Get(ctx, []byte("t"))
		wg.Done()
	})
	zzverif.Go("iterator", func() {
		it, err := s.Iter(ctx, []byte("a"), []byte("z"), 0, 0)
		if err == nil {
			for it.Next(ctx) == nil {
				_ = it.Key()
			}
			it.Close()
		}
		wg.Done()
	})
	wg.Wait()
	zzverif.StopExploring()
	zzverif.WaitIdle()
	zzverif.Cover("done")
}
