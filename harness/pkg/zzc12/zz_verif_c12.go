//go:build verif

// Package zzc12: client-visible behaviour does not depend on the storage engine (property C12):
// the same symbolic request sequence is run on nodes backed by different engine stacks and the
// transcripts must be identical.
package zzc12

import (
	"context"

	proto "github.com/kubewharf/kubebrain-client/api/v2rpc"

	"github.com/kubewharf/kubebrain/pkg/backend"
	"github.com/kubewharf/kubebrain/pkg/storage"
	badgerkv "github.com/kubewharf/kubebrain/pkg/storage/badger"
	"github.com/kubewharf/kubebrain/pkg/storage/memkv"
	smetrics "github.com/kubewharf/kubebrain/pkg/storage/metrics"
	"github.com/kubewharf/kubebrain/pkg/zzc11"
	"github.com/kubewharf/kubebrain/pkg/zzmodel"
	"github.com/kubewharf/kubebrain/pkg/zzverif"
)

var ctx = context.Background()
var keys = [][]byte{[]byte("/r/a"), []byte("/r/a/b")}

func node(s storage.KvStorage) backend.Backend {
	be := backend.NewBackend(s, backend.Config{Prefix: "/r", EnableEtcdCompatibility: true, WatchCacheSize: 4}, zzmodel.NoMetrics{})
	be.SetCurrentRevision(5)
	return be
}

type answer struct {
	err  bool
	ok   bool
	rev  uint64
	kv   *proto.KeyValue
	kvs  []*proto.KeyValue
	more bool
	cnt  uint64
}

func same(a, b answer, what string) {
	zzverif.Assert(a.err == b.err, what+": error or not")
	if a.err {
		return
	}
	zzverif.Assert(a.ok == b.ok, what+": success flag")
	zzverif.Assert(a.rev == b.rev, what+": revision")
	zzverif.Assert((a.kv == nil) == (b.kv == nil), what+": returned kv or not")
	if a.kv != nil && b.kv != nil {
		zzverif.Assert(zzverif.BytesEq(a.kv.Value, b.kv.Value) && a.kv.Revision == b.kv.Revision, what+": returned kv")
	}
	zzverif.Assert(len(a.kvs) == len(b.kvs) && a.more == b.more && a.cnt == b.cnt, what+": range result size, more, count")
	for i := range a.kvs {
		if i < len(b.kvs) {
			zzverif.Assert(zzverif.BytesEq(a.kvs[i].Key, b.kvs[i].Key) && zzverif.BytesEq(a.kvs[i].Value, b.kvs[i].Value) && a.kvs[i].Revision == b.kvs[i].Revision, what+": range result")
		}
	}
}

// drain empties a watch channel without blocking and flattens the batches (how events are
// grouped into batches depends on timing, not on the engine).
func drain(ch <-chan []*proto.Event) (evs []*proto.Event, closed bool) {
	for {
		select {
		case b, ok := <-ch:
			if !ok {
				return evs, true
			}
			evs = append(evs, b...)
		default:
			return evs, false
		}
	}
}

func sameEvents(a, b []*proto.Event, what string) {
	zzverif.Assert(len(a) == len(b), what+": number of events")
	for i := range a {
		if i >= len(b) {
			break
		}
		zzverif.Assert(a[i].Type == b[i].Type && a[i].Revision == b[i].Revision, what+": event kind and revision")
		zzverif.Assert((a[i].Kv == nil) == (b[i].Kv == nil), what+": event kv or not")
		if a[i].Kv != nil && b[i].Kv != nil {
			zzverif.Assert(zzverif.BytesEq(a[i].Kv.Key, b[i].Kv.Key) && zzverif.BytesEq(a[i].Kv.Value, b[i].Kv.Value) && a[i].Kv.Revision == b[i].Kv.Revision, what+": event kv")
		}
	}
}

// prestate brings every node into the same initial state through the client API (concrete
// values): 0 empty, 1 /r/a live, 2 /r/a updated, 3 /r/a deleted, 4 /r/a deleted and compacted
// away, 5 /r/a deleted, compacted and created again. Returns the revision of the last write.
func prestate(nodes []backend.Backend, sc int) {
	for _, be := range nodes {
		if sc == 0 {
			continue
		}
		c, err := be.Create(ctx, &proto.CreateRequest{Key: keys[0], Value: []byte("1")})
		zzverif.Assert(err == nil && c.Succeeded, "prestate: create")
		last := c.Header.Revision
		if sc >= 2 {
			u, err := be.Update(ctx, &proto.UpdateRequest{Kv: &proto.KeyValue{Key: keys[0], Value: []byte("2"), Revision: last}})
			zzverif.Assert(err == nil && u.Succeeded, "prestate: update")
			last = u.Header.Revision
		}
		if sc >= 3 {
			d, err := be.Delete(ctx, &proto.DeleteRequest{Key: keys[0], Revision: last})
			zzverif.Assert(err == nil && d.Succeeded, "prestate: delete")
			last = d.Header.Revision
		}
		zzverif.WaitIdle()
		if sc >= 4 {
			_, err := be.Compact(ctx, last)
			zzverif.Assert(err == nil, "prestate: compact")
		}
		if sc >= 5 {
			c, err := be.Create(ctx, &proto.CreateRequest{Key: keys[0], Value: []byte("3")})
			zzverif.Assert(err == nil && c.Succeeded, "prestate: create again")
		}
		zzverif.WaitIdle()
	}
}

// VerifC12Engines: contract store, in-memory, Badger, TiKV (mock cluster) and the metrics wrapper (over Badger).
func VerifC12Engines() {
	bd, err := badgerkv.NewKvStorage(badgerkv.Config{Dir: zzverif.TempDir()})
	zzverif.Assert(err == nil, "badger opens")
	bd2, err := badgerkv.NewKvStorage(badgerkv.Config{Dir: zzverif.TempDir()})
	zzverif.Assert(err == nil, "badger opens")
	nodes := []backend.Backend{node(zzmodel.NewStore()), node(memkv.NewKvStorage()), node(bd), node(zzc11.NewMockTiKV()),
		node(smetrics.NewKvStorage(bd2, zzmodel.NoMetrics{}))}
	if zzverif.Param("evkey", 0) == 1 {
		// the keys are Kubernetes Events (written with a TTL; expired natively by some engines and
		// by the compaction scan on the others)
		keys = [][]byte{[]byte("/r/events/a"), []byte("/r/events/a/b")}
		// (time stands still: nothing expires during the run; expiry itself is C17's subject)
		zzverif.SetClock(1000000000)
	}
	// script=1: the requests are a compaction followed by a point read (both at symbolic revisions)
	script := zzverif.Param("script", 0) == 1
	n := zzverif.Param("requests", 3)
	nsc := zzverif.Param("prestates", 1)
	sc := 0
	if nsc > 1 {
		sc = zzverif.Choose("prestate", nsc)
	}
	prestate(nodes, sc)
	// a watch on every node, registered before the requests: it sees the changes they make
	var live []<-chan []*proto.Event
	for _, be := range nodes {
		ch, err := be.Watch(ctx, "/r/", 0)
		zzverif.Assert(err == nil, "watch without start revision is accepted")
		live = append(live, ch)
	}
	for i := 0; i < n; i++ {
		tag := "q" + string(rune('0'+i))
		kind := 0
		if script {
			kind = []int{5, 3, 4}[i%3]
		} else {
			kind = zzverif.Choose(tag+".kind", 6)
		}
		key := keys[zzverif.Choose(tag+".key", len(keys))]
		val := zzverif.Bytes(tag+".val", 1)
		exp := zzverif.U64(tag + ".exp")
		limit := int64(zzverif.Choose(tag+".limit", 3))
		var ans []answer
		for _, be := range nodes {
			var a answer
			switch kind {
			case 0:
				r, err := be.Create(ctx, &proto.CreateRequest{Key: key, Value: val})
				a.err = err != nil
				if err == nil {
					a.ok, a.rev = r.Succeeded, r.Header.Revision
				}
			case 1:
				r, err := be.Update(ctx, &proto.UpdateRequest{Kv: &proto.KeyValue{Key: key, Value: val, Revision: exp}})
				a.err = err != nil
				if err == nil {
					a.ok, a.rev, a.kv = r.Succeeded, r.Header.Revision, r.Kv
				}
			case 2:
				r, err := be.Delete(ctx, &proto.DeleteRequest{Key: key, Revision: exp})
				a.err = err != nil
				if err == nil {
					a.ok, a.rev, a.kv = r.Succeeded, r.Header.Revision, r.Kv
				}
			case 3:
				r, err := be.Get(ctx, &proto.GetRequest{Key: key, Revision: exp})
				a.err = err != nil
				if err == nil {
					a.rev, a.kv = r.Header.Revision, r.Kv
				}
			case 4:
				r, err := be.List(ctx, &proto.RangeRequest{Key: []byte("/r/"), End: []byte("/r0"), Revision: exp, Limit: limit})
				a.err = err != nil
				if err == nil {
					a.rev, a.kvs, a.more = r.Header.Revision, r.Kvs, r.More
				}
			default:
				r, err := be.Compact(ctx, exp)
				a.err = err != nil
				if err == nil {
					a.rev = r.Header.Revision
				}
				c, cerr := be.Count(ctx, &proto.CountRequest{Key: []byte("/r/"), End: []byte("/r0")})
				if cerr == nil {
					a.cnt = c.Count
				}
			}
			ans = append(ans, a)
			zzverif.WaitIdle()
		}
		for j := 1; j < len(ans); j++ {
			same(ans[0], ans[j], "engine-independent answer")
		}
		if !ans[0].err && ans[0].ok {
			zzverif.Cover("write-ok")
		}
		if kind == 5 {
			zzverif.Cover("compaction")
		}
	}
	// watch events: the live watches saw the same events on every engine ...
	var evs [][]*proto.Event
	for _, ch := range live {
		e, closed := drain(ch)
		zzverif.Assert(!closed, "watch of a consumer that keeps up stays open")
		evs = append(evs, e)
	}
	for j := 1; j < len(evs); j++ {
		sameEvents(evs[0], evs[j], "engine-independent watch events")
	}
	if len(evs[0]) > 0 {
		zzverif.Cover("events")
	}
	// ... and so does a watch started afterwards from a symbolic revision (served from the event cache, or refused)
	s := zzverif.U64("S")
	zzverif.Assume(s >= 1 && s <= 12)
	var late [][]*proto.Event
	var refused []bool
	for _, be := range nodes {
		ch, err := be.Watch(ctx, "/r/", s)
		refused = append(refused, err != nil)
		if err != nil {
			late = append(late, nil)
			continue
		}
		zzverif.WaitIdle()
		e, _ := drain(ch)
		late = append(late, e)
	}
	for j := 1; j < len(late); j++ {
		zzverif.Assert(refused[0] == refused[j], "engine-independent watch refusal")
		sameEvents(late[0], late[j], "engine-independent replayed watch events")
	}
	zzverif.Cover("done")
}
