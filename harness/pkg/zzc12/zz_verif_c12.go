//go:build verif

// Package zzc12: client-visible behaviour does not depend on the storage engine (property C12):
// the same symbolic request sequence is run on nodes backed by different engine stacks and the
// transcripts must be identical.
package zzc12

import (
	"context"

	proto "github.com/kubewharf/kubebrain-client/api/v2rpc"

	"github.com/kubewharf/kubebrain/pkg/backend"
	"github.com/kubewharf/kubebrain/pkg/storage"
	badgerkv "github.com/kubewharf/kubebrain/pkg/storage/badger"
	"github.com/kubewharf/kubebrain/pkg/storage/memkv"
	smetrics "github.com/kubewharf/kubebrain/pkg/storage/metrics"
	"github.com/kubewharf/kubebrain/pkg/zzc11"
	"github.com/kubewharf/kubebrain/pkg/zzmodel"
	"github.com/kubewharf/kubebrain/pkg/zzverif"
)

var ctx = context.Background()
var keys = [][]byte{[]byte("/r/a"), []byte("/r/a/b")}

func node(s storage.KvStorage) backend.Backend {
	be := backend.NewBackend(s, backend.Config{Prefix: "/r", EnableEtcdCompatibility: true, WatchCacheSize: 4}, zzmodel.NoMetrics{})
	be.SetCurrentRevision(5)
	return be
}

type answer struct {
	err  bool
	ok   bool
	rev  uint64
	kv   *proto.KeyValue
	kvs  []*proto.KeyValue
	more bool
	cnt  uint64
}

func same(a, b answer, what string) {
	zzverif.Assert(a.err == b.err, what+": error or not")
	if a.err {
		return
	}
	zzverif.Assert(a.ok == b.ok, what+": success flag")
	zzverif.Assert(a.rev == b.rev, what+": revision")
	zzverif.Assert((a.kv == nil) == (b.kv == nil), what+": returned kv or not")
	if a.kv != nil && b.kv != nil {
		zzverif.Assert(zzverif.BytesEq(a.kv.Value, b.kv.Value) && a.kv.Revision == b.kv.Revision, what+": returned kv")
	}
	zzverif.Assert(len(a.kvs) == len(b.kvs) && a.more == b.more && a.cnt == b.cnt, what+": range result size, more, count")
	for i := range a.kvs {
		if i < len(b.kvs) {
			zzverif.Assert(zzverif.BytesEq(a.kvs[i].Key, b.kvs[i].Key) && zzverif.BytesEq(a.kvs[i].Value, b.kvs[i].Value) && a.kvs[i].Revision == b.kvs[i].Revision, what+": range result")
		}
	}
}

// VerifC12Engines: contract store, in-memory, Badger, TiKV (mock cluster) and the metrics wrapper (over Badger).
func VerifC12Engines() {
	bd, err := badgerkv.NewKvStorage(badgerkv.Config{Dir: zzverif.TempDir()})
	zzverif.Assert(err == nil, "badger opens")
	bd2, err := badgerkv.NewKvStorage(badgerkv.Config{Dir: zzverif.TempDir()})
	zzverif.Assert(err == nil, "badger opens")
	nodes := []backend.Backend{node(zzmodel.NewStore()), node(memkv.NewKvStorage()), node(bd), node(zzc11.NewMockTiKV()),
		node(smetrics.NewKvStorage(bd2, zzmodel.NoMetrics{}))}
	n := zzverif.Param("requests", 3)
	for i := 0; i < n; i++ {
		tag := "q" + string(rune('0'+i))
		kind := zzverif.Choose(tag+".kind", 6)
		key := keys[zzverif.Choose(tag+".key", len(keys))]
		val := zzverif.Bytes(tag+".val", 1)
		exp := zzverif.U64(tag + ".exp")
		limit := int64(zzverif.Choose(tag+".limit", 3))
		var ans []answer
		for _, be := range nodes {
			var a answer
			switch kind {
			case 0:
				r, err := be.Create(ctx, &proto.CreateRequest{Key: key, Value: val})
				a.err = err != nil
				if err == nil {
					a.ok, a.rev = r.Succeeded, r.Header.Revision
				}
			case 1:
				r, err := be.Update(ctx, &proto.UpdateRequest{Kv: &proto.KeyValue{Key: key, Value: val, Revision: exp}})
				a.err = err != nil
				if err == nil {
					a.ok, a.rev, a.kv = r.Succeeded, r.Header.Revision, r.Kv
				}
			case 2:
				r, err := be.Delete(ctx, &proto.DeleteRequest{Key: key, Revision: exp})
				a.err = err != nil
				if err == nil {
					a.ok, a.rev, a.kv = r.Succeeded, r.Header.Revision, r.Kv
				}
			case 3:
				r, err := be.Get(ctx, &proto.GetRequest{Key: key, Revision: exp})
				a.err = err != nil
				if err == nil {
					a.rev, a.kv = r.Header.Revision, r.Kv
				}
			case 4:
				r, err := be.List(ctx, &proto.RangeRequest{Key: []byte("/r/"), End: []byte("/r0"), Revision: exp, Limit: limit})
				a.err = err != nil
				if err == nil {
					a.rev, a.kvs, a.more = r.Header.Revision, r.Kvs, r.More
				}
			default:
				r, err := be.Compact(ctx, exp)
				a.err = err != nil
				if err == nil {
					a.rev = r.Header.Revision
				}
				c, cerr := be.Count(ctx, &proto.CountRequest{Key: []byte("/r/"), End: []byte("/r0")})
				if cerr == nil {
					a.cnt = c.Count
				}
			}
			ans = append(ans, a)
			zzverif.WaitIdle()
		}
		for j := 1; j < len(ans); j++ {
			same(ans[0], ans[j], "engine-independent answer")
		}
		if !ans[0].err && ans[0].ok {
			zzverif.Cover("write-ok")
		}
		if kind == 5 {
			zzverif.Cover("compaction")
		}
	}
	zzverif.Cover("done")
}
