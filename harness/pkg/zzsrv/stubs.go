// Package zzsrv holds stubs for the server-level harnesses (recording backend, peer service).
package zzsrv

import (
	"context"
	"errors"

	proto "github.com/kubewharf/kubebrain-client/api/v2rpc"
	"go.etcd.io/etcd/api/v3/etcdserverpb"
	"go.etcd.io/etcd/api/v3/mvccpb"
	"k8s.io/client-go/tools/leaderelection/resourcelock"

	"github.com/kubewharf/kubebrain/pkg/server/service/leader"
)

// Peers is a PeerService stub with harness-controlled role flags.
type Peers struct {
	Leader    bool
	Proxy     bool
	SyncErr   error
	SyncCalls int
	ProxyTxn  int
	ProxyWat  int
}

func (p *Peers) SyncReadRevision() error { p.SyncCalls++; return p.SyncErr }
func (p *Peers) Close() error            { return nil }
func (p *Peers) Campaign()               {}
func (p *Peers) GetLeaderInfo() string   { return "leader:1" }
func (p *Peers) IsLeader() bool          { return p.Leader }
func (p *Peers) GetElectionInfo() (leader.ElectionInfo, error) {
	return leader.ElectionInfo{LeaderAddress: "leader:1", IsLeader: p.Leader}, nil
}
func (p *Peers) EtcdProxyEnabled() bool { return p.Proxy }
func (p *Peers) Txn(ctx context.Context, txn *etcdserverpb.TxnRequest) (*etcdserverpb.TxnResponse, error) {
	p.ProxyTxn++
	return &etcdserverpb.TxnResponse{}, nil
}
func (p *Peers) Watch(ctx context.Context, key string, revision uint64) (<-chan []*mvccpb.Event, error) {
	p.ProxyWat++
	return nil, errors.New("Proxy watch stub")
}

// RecBackend records what reaches the backend below the real etcd shim.
type RecBackend struct {
	Op            string // "", "create", "update", "delete", "compact"
	NWrite        int
	NRead         int
	Key           []byte
	Val           []byte
	Rev           uint64
	NWatch        int
	Peer          *Peers
	UnsyncedReads int // reads that reached the backend before SyncReadRevision was called
	CurRev        uint64
	RevSets       []uint64 // every revision the node was told to read at
}

func (b *RecBackend) read() {
	b.NRead++
	if b.Peer != nil && b.Peer.SyncCalls == 0 {
		b.UnsyncedReads++
	}
}

func (b *RecBackend) Create(ctx context.Context, r *proto.CreateRequest) (*proto.CreateResponse, error) {
	b.Op, b.Key, b.Val = "create", r.Key, r.Value
	b.NWrite++
	return &proto.CreateResponse{Header: &proto.ResponseHeader{Revision: 1}, Succeeded: true}, nil
}
func (b *RecBackend) Update(ctx context.Context, r *proto.UpdateRequest) (*proto.UpdateResponse, error) {
	b.Op, b.Key, b.Val, b.Rev = "update", r.Kv.Key, r.Kv.Value, r.Kv.Revision
	b.NWrite++
	return &proto.UpdateResponse{Header: &proto.ResponseHeader{Revision: 1}, Succeeded: true}, nil
}
func (b *RecBackend) Delete(ctx context.Context, r *proto.DeleteRequest) (*proto.DeleteResponse, error) {
	b.Op, b.Key, b.Rev = "delete", r.Key, r.Revision
	b.NWrite++
	return &proto.DeleteResponse{Header: &proto.ResponseHeader{Revision: 1}, Succeeded: true}, nil
}
func (b *RecBackend) Compact(ctx context.Context, revision uint64) (*proto.CompactResponse, error) {
	b.Op = "compact"
	b.NWrite++
	return &proto.CompactResponse{Header: &proto.ResponseHeader{}}, nil
}
func (b *RecBackend) Get(ctx context.Context, r *proto.GetRequest) (*proto.GetResponse, error) {
	b.read()
	return &proto.GetResponse{Header: &proto.ResponseHeader{}}, nil
}
func (b *RecBackend) List(ctx context.Context, r *proto.RangeRequest) (*proto.RangeResponse, error) {
	b.read()
	return &proto.RangeResponse{Header: &proto.ResponseHeader{}}, nil
}
func (b *RecBackend) Count(ctx context.Context, r *proto.CountRequest) (*proto.CountResponse, error) {
	b.read()
	return &proto.CountResponse{Header: &proto.ResponseHeader{}}, nil
}
func (b *RecBackend) GetPartitions(ctx context.Context, r *proto.ListPartitionRequest) (*proto.ListPartitionResponse, error) {
	b.read()
	return &proto.ListPartitionResponse{Header: &proto.ResponseHeader{}}, nil
}
func (b *RecBackend) ListByStream(ctx context.Context, startKey, endKey []byte, revision uint64) (<-chan *proto.StreamRangeResponse, error) {
	b.read()
	return nil, errors.New("stub")
}
func (b *RecBackend) Watch(ctx context.Context, key string, revision uint64) (<-chan []*proto.Event, error) {
	b.NWatch++
	return nil, errors.New("stub")
}
func (b *RecBackend) GetResourceLock() resourcelock.Interface { return Lock{} }
func (b *RecBackend) GetCurrentRevision() uint64              { return b.CurRev }
func (b *RecBackend) SetCurrentRevision(r uint64) {
	b.CurRev = r
	b.RevSets = append(b.RevSets, r)
}

type Lock struct{}

func (Lock) Get() (*resourcelock.LeaderElectionRecord, error) {
	return nil, errors.New("stub")
}
func (Lock) Create(ler resourcelock.LeaderElectionRecord) error { return nil }
func (Lock) Update(ler resourcelock.LeaderElectionRecord) error { return nil }
func (Lock) RecordEvent(string)                                 {}
func (Lock) Identity() string                                   { return "me" }
func (Lock) Describe() string                                   { return "leader:1,7" }
