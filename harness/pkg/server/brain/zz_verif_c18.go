//go:build verif

package brain

import (
	"context"
	"errors"

	proto "github.com/kubewharf/kubebrain-client/api/v2rpc"
	"google.golang.org/grpc/metadata"

	"github.com/kubewharf/kubebrain/pkg/zzmodel"
	"github.com/kubewharf/kubebrain/pkg/zzsrv"
	"github.com/kubewharf/kubebrain/pkg/zzverif"
)

type vStream struct{ ctx context.Context }

func (s *vStream) SetHeader(metadata.MD) error  { return nil }
func (s *vStream) SendHeader(metadata.MD) error { return nil }
func (s *vStream) SetTrailer(metadata.MD)       {}
func (s *vStream) Context() context.Context     { return s.ctx }
func (s *vStream) SendMsg(m interface{}) error  { return nil }
func (s *vStream) RecvMsg(m interface{}) error  { return nil }

type vWatchSrv struct{ vStream }

func (w *vWatchSrv) Send(*proto.WatchResponse) error { return nil }

type vRangeSrv struct{ vStream }

func (w *vRangeSrv) Send(*proto.StreamRangeResponse) error { return nil }

// VerifC18Brain: every handler of the native API x {leader, follower} x {leader reachable or not}.
func VerifC18Brain() {
	peers := &zzsrv.Peers{Leader: zzverif.Choose("leader", 2) == 1}
	if zzverif.Choose("leaderUnreachable", 2) == 1 {
		peers.SyncErr = errors.New("leader unreachable")
	}
	rec := &zzsrv.RecBackend{Peer: peers}
	s := &Server{backend: rec, metricCli: zzmodel.NoMetrics{}, peers: peers}
	ctx := context.Background()
	key, end := []byte("/r/a"), []byte("/r/z")
	if zzverif.Choose("noEnd", 2) == 1 {
		end = nil
	}
	// request fields a handler might (wrongly) take for a reason not to ask the leader: explicit
	// revisions (zero, old, far future), limits (zero, negative, positive), any value bytes
	rev, limit, val := zzverif.U64("rev"), zzverif.I64("limit"), zzverif.Bytes("val", 1)
	req := zzverif.Choose("request", 10)
	var err error
	switch req {
	case 0:
		_, err = s.Create(ctx, &proto.CreateRequest{Key: key, Value: val})
	case 1:
		_, err = s.Update(ctx, &proto.UpdateRequest{Kv: &proto.KeyValue{Key: key, Value: val, Revision: rev}})
	case 2:
		_, err = s.Delete(ctx, &proto.DeleteRequest{Key: key, Revision: rev})
	case 3:
		_, err = s.Compact(ctx, &proto.CompactRequest{Revision: rev})
	case 4:
		_, err = s.Get(ctx, &proto.GetRequest{Key: key, Revision: rev})
	case 5:
		_, err = s.Range(ctx, &proto.RangeRequest{Key: key, End: end, Revision: rev, Limit: limit})
	case 6:
		_, err = s.Count(ctx, &proto.CountRequest{Key: key, End: end})
	case 7:
		_, err = s.ListPartition(ctx, &proto.ListPartitionRequest{Key: key, End: end})
	case 8:
		err = s.RangeStream(&proto.RangeRequest{Key: key, End: end, Revision: rev, Limit: limit}, &vRangeSrv{vStream{ctx}})
	default:
		err = s.Watch(&proto.WatchRequest{Key: key, Revision: rev}, &vWatchSrv{vStream{ctx}})
	}
	switch {
	case req <= 3:
		if !peers.Leader {
			zzverif.Assert(rec.NWrite == 0 && err != nil, "a follower rejects the write as unavailable and never applies it")
			zzverif.Cover("write-rejected")
		} else {
			zzverif.Assert(rec.NWrite == 1 || err != nil, "the leader applies the write (or refuses a malformed one)")
			zzverif.Cover("write-applied")
		}
	case req <= 8:
		zzverif.Assert(rec.UnsyncedReads == 0, "a read reaches the backend only after the leader's revision was adopted")
		if peers.SyncErr != nil {
			zzverif.Assert(err != nil && rec.NRead == 0, "if the leader cannot be reached the read fails without touching the backend")
			zzverif.Cover("read-refused")
		} else {
			zzverif.Assert(rec.NRead == 0 || peers.SyncCalls >= 1, "read served after syncing")
			if rec.NRead == 1 {
				zzverif.Cover("read-served")
			} else {
				zzverif.Assert(err != nil, "a read that does not reach the backend is refused")
				zzverif.Cover("read-malformed")
			}
		}
	default:
		if !peers.Leader {
			zzverif.Assert(rec.NWatch == 0 && err != nil, "a follower never serves a watch from its own event history")
			zzverif.Cover("watch-rejected")
		} else {
			zzverif.Assert(rec.NWatch == 1 || err != nil, "the leader serves the watch (or refuses a malformed one)")
			zzverif.Cover("watch-served")
		}
	}
}
