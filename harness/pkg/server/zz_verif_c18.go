//go:build verif

package server

import (
	"context"
	"encoding/json"
	"net/http"

	proto "github.com/kubewharf/kubebrain-client/api/v2rpc"

	"github.com/kubewharf/kubebrain/pkg/backend"
	"github.com/kubewharf/kubebrain/pkg/server/service/leader"
	"github.com/kubewharf/kubebrain/pkg/server/service/revision"
	"github.com/kubewharf/kubebrain/pkg/zzmodel"
	"github.com/kubewharf/kubebrain/pkg/zzsrv"
	"github.com/kubewharf/kubebrain/pkg/zzverif"
)

// vResponse is an http.ResponseWriter with net/http's contract: the status is fixed by the first
// WriteHeader or — implicitly, as 200 — by the first Write; later WriteHeader calls change nothing.
type vResponse struct {
	hdr    http.Header
	status int
	body   []byte
}

func (w *vResponse) Header() http.Header {
	if w.hdr == nil {
		w.hdr = http.Header{}
	}
	return w.hdr
}

func (w *vResponse) WriteHeader(code int) {
	if w.status == 0 {
		w.status = code
	}
}

func (w *vResponse) Write(b []byte) (int, error) {
	if w.status == 0 {
		w.status = http.StatusOK
	}
	w.body = append(w.body, b...)
	return len(b), nil
}

// VerifC18Status: a follower read whose revision request is answered by the real /status handler
// of the node named in the election record — which is the leader, or does not (or no longer)
// consider itself leader: the follower's read uses exactly the revision of a node that is leader,
// or fails; it never succeeds with anything else.
func VerifC18Status() {
	answeringIsLeader := zzverif.Bool("answeringNodeIsLeader")
	leaderRev := zzverif.U64("leaderRev")
	zzverif.Assume(leaderRev > 0)
	peer := &server{
		leaderElection: &leader.Stub{ElectionInfo: leader.ElectionInfo{IsLeader: answeringIsLeader}},
		metricCli:      zzmodel.NoMetrics{},
		backend:        &zzsrv.RecBackend{CurRev: leaderRev},
	}
	handlers := peer.GetPeerHttpHandlers()
	zzverif.SetHTTPHandler(func(url string) zzverif.HTTPResult {
		h := handlers["/status"]
		zzverif.Assert(h != nil, "the peer service exposes /status")
		w := &vResponse{}
		h.ServeHTTP(w, nil)
		if w.status == 0 {
			w.status = http.StatusOK
		}
		return zzverif.HTTPResult{Status: w.status, Body: w.body}
	})
	fb := &zzsrv.RecBackend{CurRev: 1}
	fe := &leader.Stub{ElectionInfo: leader.ElectionInfo{LeaderAddress: zzverif.HTTPAddr(), IsLeader: false}}
	s := revision.NewRevisionSyncer(fb, zzmodel.NoMetrics{}, fe, nil)
	err := s.SyncReadRevision()
	if answeringIsLeader {
		zzverif.Assert(err == nil, "the leader's answer is adopted")
		zzverif.Assert(len(fb.RevSets) == 1 && fb.RevSets[0] == leaderRev, "the follower reads at the leader's revision")
		zzverif.Cover("adopted")
	} else {
		zzverif.Assert(err != nil, "a node that is not leader cannot supply the read revision: the follower's read fails")
		zzverif.Assert(len(fb.RevSets) == 0, "a failed sync does not change the follower's revision")
		zzverif.Cover("refused")
	}
}

// VerifC18Takeover: a node built by the real NewServer wiring takes over (it served follower reads
// before, at an older revision) while a follower asks its /status handler at any moment of the
// election pass (<= 2 scheduling delays): whenever /status answers 200, the revision it publishes
// covers everything the previous leader committed — a follower never adopts a stale revision from
// a node that has only just won the election.
func VerifC18Takeover() {
	st := zzmodel.NewStore()
	elapsed := uint64(0)
	st.ClockFn = func() uint64 { return 1000 + elapsed }
	ctx := context.Background()
	mk := func(id string) (backend.Backend, *server) {
		be := backend.NewBackend(st, backend.Config{Prefix: "/r", Identity: id, EnableEtcdCompatibility: true, WatchCacheSize: 4}, zzmodel.NoMetrics{})
		return be, NewServer(be, zzmodel.NoMetrics{}, Config{}).(*server)
	}
	oldBe, old := mk("old")
	go old.leaderElection.Campaign()
	zzverif.WaitIdle()
	zzverif.Assert(old.leaderElection.IsLeader(), "first node becomes leader")
	elapsed += 5
	cr, err := oldBe.Create(ctx, &proto.CreateRequest{Key: []byte("/r/a"), Value: []byte("v")})
	zzverif.Assert(err == nil && cr.Succeeded, "old leader: create")
	stored := cr.Header.Revision
	zzverif.WaitIdle()
	newBe, ns := mk("new")
	if zzverif.Choose("servedFollowerReads", 2) == 1 {
		newBe.SetCurrentRevision(stored - 1) // what it had adopted from the old leader some time ago
	}
	elapsed += 1
	st.Yield = zzverif.YieldAt
	done := make(chan struct{}, 2)
	zzverif.ExploreSchedules(zzverif.Param("preempt", 2))
	zzverif.Go("campaign", func() {
		ns.leaderElection.Campaign()
		done <- struct{}{}
	})
	zzverif.Go("follower", func() {
		w := &vResponse{}
		ns.GetPeerHttpHandlers()["/status"].ServeHTTP(w, nil)
		if w.status == 0 || w.status == http.StatusOK {
			var lr revision.LeaderRevision
			zzverif.Assert(json.Unmarshal(w.body, &lr) == nil, "/status answers a revision")
			zzverif.Assert(lr.Revision >= stored, "a node that answers /status publishes a revision that covers everything committed before")
			zzverif.Cover("status-answered")
		} else {
			zzverif.Cover("status-refused")
		}
		done <- struct{}{}
	})
	<-done
	<-done
	zzverif.StopExploring()
	st.Yield = nil
	zzverif.WaitIdle()
	zzverif.Assert(ns.leaderElection.IsLeader(), "second node becomes leader")
	zzverif.Cover("done")
}
