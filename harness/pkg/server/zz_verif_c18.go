//go:build verif

package server

import (
	"net/http"

	"github.com/kubewharf/kubebrain/pkg/server/service/leader"
	"github.com/kubewharf/kubebrain/pkg/server/service/revision"
	"github.com/kubewharf/kubebrain/pkg/zzmodel"
	"github.com/kubewharf/kubebrain/pkg/zzsrv"
	"github.com/kubewharf/kubebrain/pkg/zzverif"
)

// vResponse is an http.ResponseWriter with net/http's contract: the status is fixed by the first
// WriteHeader or — implicitly, as 200 — by the first Write; later WriteHeader calls change nothing.
type vResponse struct {
	hdr    http.Header
	status int
	body   []byte
}

func (w *vResponse) Header() http.Header {
	if w.hdr == nil {
		w.hdr = http.Header{}
	}
	return w.hdr
}

func (w *vResponse) WriteHeader(code int) {
	if w.status == 0 {
		w.status = code
	}
}

func (w *vResponse) Write(b []byte) (int, error) {
	if w.status == 0 {
		w.status = http.StatusOK
	}
	w.body = append(w.body, b...)
	return len(b), nil
}

// VerifC18Status: a follower read whose revision request is answered by the real /status handler
// of the node named in the election record — which is the leader, or does not (or no longer)
// consider itself leader: the follower's read uses exactly the revision of a node that is leader,
// or fails; it never succeeds with anything else.
func VerifC18Status() {
	answeringIsLeader := zzverif.Bool("answeringNodeIsLeader")
	leaderRev := zzverif.U64("leaderRev")
	zzverif.Assume(leaderRev > 0)
	peer := &server{
		leaderElection: &leader.Stub{ElectionInfo: leader.ElectionInfo{IsLeader: answeringIsLeader}},
		metricCli:      zzmodel.NoMetrics{},
		backend:        &zzsrv.RecBackend{CurRev: leaderRev},
	}
	handlers := peer.GetPeerHttpHandlers()
	zzverif.SetHTTPHandler(func(url string) zzverif.HTTPResult {
		h := handlers["/status"]
		zzverif.Assert(h != nil, "the peer service exposes /status")
		w := &vResponse{}
		h.ServeHTTP(w, nil)
		if w.status == 0 {
			w.status = http.StatusOK
		}
		return zzverif.HTTPResult{Status: w.status, Body: w.body}
	})
	fb := &zzsrv.RecBackend{CurRev: 1}
	fe := &leader.Stub{ElectionInfo: leader.ElectionInfo{LeaderAddress: zzverif.HTTPAddr(), IsLeader: false}}
	s := revision.NewRevisionSyncer(fb, zzmodel.NoMetrics{}, fe, nil)
	err := s.SyncReadRevision()
	if answeringIsLeader {
		zzverif.Assert(err == nil, "the leader's answer is adopted")
		zzverif.Assert(len(fb.RevSets) == 1 && fb.RevSets[0] == leaderRev, "the follower reads at the leader's revision")
		zzverif.Cover("adopted")
	} else {
		zzverif.Assert(err != nil, "a node that is not leader cannot supply the read revision: the follower's read fails")
		zzverif.Assert(len(fb.RevSets) == 0, "a failed sync does not change the follower's revision")
		zzverif.Cover("refused")
	}
}
