//go:build verif

package etcd

import (
	"context"
	"strconv"

	"go.etcd.io/etcd/api/v3/etcdserverpb"
	"go.etcd.io/etcd/api/v3/mvccpb"

	"github.com/kubewharf/kubebrain/pkg/backend"
	"github.com/kubewharf/kubebrain/pkg/zzmodel"
	"github.com/kubewharf/kubebrain/pkg/zzsrv"
	"github.com/kubewharf/kubebrain/pkg/zzverif"
)

var vEKeys = [][]byte{[]byte("/r/a"), []byte("/r/a/b"), []byte("/r/ab")}

// vEtcdWorld drives the etcd-facing endpoint over the real backend and a reference model.
type vEtcdWorld struct {
	st    *zzmodel.Store
	be    backend.Backend
	s     *RPCServer
	g     *zzmodel.Ghost
	dealt uint64
	nops  int
	nkeys int
}

func vNewEtcdWorld(nkeys int) *vEtcdWorld {
	st := zzmodel.NewStore()
	st.BareCASError = zzverif.Bool("bareCAS")
	be := backend.NewBackend(st, backend.Config{Prefix: "/r", EnableEtcdCompatibility: true, WatchCacheSize: 8}, zzmodel.NoMetrics{})
	be.SetCurrentRevision(5)
	return &vEtcdWorld{st: st, be: be, s: New(be, zzmodel.NoMetrics{}, &zzsrv.Peers{Leader: true}), g: zzmodel.NewGhost(), dealt: 5, nkeys: nkeys}
}

func vCmpMod(key []byte, rev int64) *etcdserverpb.Compare {
	return &etcdserverpb.Compare{Target: etcdserverpb.Compare_MOD, Result: etcdserverpb.Compare_EQUAL, Key: key,
		TargetUnion: &etcdserverpb.Compare_ModRevision{ModRevision: rev}}
}
func vOpPut(key, val []byte) *etcdserverpb.RequestOp {
	return &etcdserverpb.RequestOp{Request: &etcdserverpb.RequestOp_RequestPut{RequestPut: &etcdserverpb.PutRequest{Key: key, Value: val}}}
}
func vOpGet(key []byte) *etcdserverpb.RequestOp {
	return &etcdserverpb.RequestOp{Request: &etcdserverpb.RequestOp_RequestRange{RequestRange: &etcdserverpb.RangeRequest{Key: key}}}
}
func vOpDel(key []byte) *etcdserverpb.RequestOp {
	return &etcdserverpb.RequestOp{Request: &etcdserverpb.RequestOp_RequestDeleteRange{RequestDeleteRange: &etcdserverpb.DeleteRangeRequest{Key: key}}}
}

// failKv checks the failure branch: the current kv of the key as etcd would return it.
func (w *vEtcdWorld) failKv(resp *etcdserverpb.TxnResponse, key []byte) {
	zzverif.Assert(len(resp.Responses) == 1 && resp.Responses[0].GetResponseRange() != nil, "failure branch carries a range response")
	rr := resp.Responses[0].GetResponseRange()
	cur, live := w.g.At(key, 0)
	if live {
		zzverif.Assert(len(rr.Kvs) == 1, "failure branch returns the current kv")
		zzverif.Assert(zzverif.BytesEq(rr.Kvs[0].Key, key) && zzverif.BytesEq(rr.Kvs[0].Value, cur.Val), "failure branch: key and value")
		zzverif.Assert(rr.Kvs[0].ModRevision == int64(cur.Rev), "failure branch: modification revision")
		zzverif.Assert(resp.Header.Revision >= rr.Kvs[0].ModRevision, "failure branch: header >= kv revision")
	} else {
		zzverif.Assert(len(rr.Kvs) == 0, "failure branch returns nothing for an absent key")
	}
}

func (w *vEtcdWorld) step() {
	tag := "op" + strconv.Itoa(w.nops)
	w.nops++
	key := vEKeys[zzverif.Choose(tag+".key", w.nkeys)]
	val := zzverif.Bytes(tag+".val", 1)
	newest, have := w.g.Newest(key)
	live := have && !newest.Del
	ctx := context.Background()
	switch zzverif.Choose(tag+".kind", 4) {
	case 0: // create-if-absent
		resp, err := w.s.Txn(ctx, &etcdserverpb.TxnRequest{Compare: []*etcdserverpb.Compare{vCmpMod(key, 0)}, Success: []*etcdserverpb.RequestOp{vOpPut(key, val)}})
		w.dealt++
		zzverif.Assert(err == nil, "create: no error")
		zzverif.Assert(resp.Succeeded == !live, "create: success flag as etcd")
		if !live {
			zzverif.Assert(resp.Header.Revision == int64(w.dealt), "create: header revision is the write's revision")
			w.g.Append(key, w.dealt, val, false)
			zzverif.Cover("create-ok")
		}
	case 1: // guarded update
		exp := zzverif.I64(tag + ".exp")
		zzverif.Assume(exp > 0 && exp <= int64(w.dealt)+1)
		resp, err := w.s.Txn(ctx, &etcdserverpb.TxnRequest{Compare: []*etcdserverpb.Compare{vCmpMod(key, exp)},
			Success: []*etcdserverpb.RequestOp{vOpPut(key, val)}, Failure: []*etcdserverpb.RequestOp{vOpGet(key)}})
		w.dealt++
		zzverif.Assert(err == nil, "update: no error")
		want := live && int64(newest.Rev) == exp
		zzverif.Assert(resp.Succeeded == want, "update: success flag as etcd")
		if want {
			zzverif.Assert(resp.Header.Revision == int64(w.dealt), "update: header revision is the write's revision")
			w.g.Append(key, w.dealt, val, false)
			zzverif.Cover("update-ok")
		} else {
			w.failKv(resp, key)
			zzverif.Cover("update-failed")
		}
	case 2: // guarded delete
		exp := zzverif.I64(tag + ".exp")
		zzverif.Assume(exp > 0 && exp <= int64(w.dealt)+1)
		resp, err := w.s.Txn(ctx, &etcdserverpb.TxnRequest{Compare: []*etcdserverpb.Compare{vCmpMod(key, exp)},
			Success: []*etcdserverpb.RequestOp{vOpDel(key)}, Failure: []*etcdserverpb.RequestOp{vOpGet(key)}})
		w.dealt++
		zzverif.Assert(err == nil, "delete: no error")
		want := live && int64(newest.Rev) == exp
		zzverif.Assert(resp.Succeeded == want, "guarded delete: success flag as etcd")
		if want {
			w.g.Append(key, w.dealt, nil, true)
			zzverif.Cover("delete-ok")
		} else {
			w.failKv(resp, key)
			zzverif.Cover("delete-failed")
		}
	default: // unguarded delete
		resp, err := w.s.Txn(ctx, &etcdserverpb.TxnRequest{Success: []*etcdserverpb.RequestOp{vOpGet(key), vOpDel(key)}})
		w.dealt++
		zzverif.Assert(err == nil, "unguarded delete: no error")
		zzverif.Assert(resp.Succeeded == live, "unguarded delete: succeeds when the key exists")
		if live {
			rr := resp.Responses[0].GetResponseRange()
			zzverif.Assert(rr != nil && len(rr.Kvs) == 1 && zzverif.BytesEq(rr.Kvs[0].Value, newest.Val) && rr.Kvs[0].ModRevision == int64(newest.Rev), "unguarded delete returns the previous kv")
			w.g.Append(key, w.dealt, nil, true)
			zzverif.Cover("unguarded-delete-ok")
		}
	}
	zzverif.WaitIdle()
}

// VerifC16Answers: for histories of the supported shapes the endpoint's success flags, failure
// branch kv, revisions, and the Range answers (order, count, more) are what etcd semantics prescribe.
func VerifC16Answers() {
	w := vNewEtcdWorld(zzverif.Param("keys", 2))
	n := zzverif.Param("ops", 2)
	for i := 0; i < n; i++ {
		w.step()
	}
	ctx := context.Background()
	// reads name a revision, as a paginated list does for its second and later pages: 0 (latest)
	// or any revision the history has reached
	rev := zzverif.I64("readRevision")
	zzverif.Assume(zzverif.Or(rev == 0, zzverif.And(rev > 5, rev <= int64(w.dealt))))
	if rev != 0 {
		zzverif.Cover("read-at-explicit-revision")
	}
	switch zzverif.Choose("read", 3) {
	case 0:
		key := vEKeys[zzverif.Choose("rd.key", w.nkeys)]
		resp, err := w.s.Range(ctx, &etcdserverpb.RangeRequest{Key: key, Revision: rev})
		zzverif.Assert(err == nil, "get: no error")
		cur, live := w.g.At(key, uint64(rev))
		if live {
			zzverif.Assert(len(resp.Kvs) == 1 && resp.Count == 1, "get: one kv, count 1")
			zzverif.Assert(zzverif.BytesEq(resp.Kvs[0].Value, cur.Val) && resp.Kvs[0].ModRevision == int64(cur.Rev), "get: value and modification revision")
			zzverif.Assert(resp.Header.Revision >= resp.Kvs[0].ModRevision, "get: header >= kv")
		} else {
			zzverif.Assert(len(resp.Kvs) == 0 && resp.Count == 0, "get: nothing for an absent key")
		}
	case 1:
		limit := zzverif.Choose("limit", w.nkeys+2)
		resp, err := w.s.Range(ctx, &etcdserverpb.RangeRequest{Key: []byte("/r/"), RangeEnd: []byte("/r0"), Limit: int64(limit), Revision: rev})
		zzverif.Assert(err == nil, "list: no error")
		want, more := w.g.List([]byte("/r/"), []byte("/r0"), uint64(rev), limit)
		zzverif.Assert(len(resp.Kvs) == len(want), "list: number of kvs")
		zzverif.Assert(resp.More == more, "list: more flag")
		if more {
			zzverif.Assert(resp.Count > int64(len(resp.Kvs)), "list: count exceeds the returned kvs when the limit cut the result")
			zzverif.Cover("list-cut")
		} else {
			zzverif.Assert(resp.Count == int64(len(resp.Kvs)), "list: count equals the returned kvs when not cut")
		}
		for i := range want {
			zzverif.Assert(zzverif.BytesEq(resp.Kvs[i].Key, want[i].Key), "list: key order")
			zzverif.Assert(zzverif.BytesEq(resp.Kvs[i].Value, want[i].Val) && resp.Kvs[i].ModRevision == int64(want[i].Rev), "list: value and revision")
		}
	default:
		resp, err := w.s.Range(ctx, &etcdserverpb.RangeRequest{Key: []byte("/r/"), RangeEnd: []byte("/r0"), CountOnly: true})
		zzverif.Assert(err == nil, "count: no error")
		zzverif.Assert(resp.Count == int64(w.g.Count([]byte("/r/"), []byte("/r0"), 0)), "count-only: number of live keys")
		zzverif.Assert(len(resp.Kvs) == 0, "count-only: no kvs")
	}
	zzverif.Cover("done")
}

// VerifC16WatchMapping: prefix watches through the etcd shim emit PUT for creates/updates and
// DELETE with the previous kv for deletes — for every watch on the node: a second watch on the same
// prefix running at the same time, and a third one started afterwards from the revision of the
// write (served from the event cache), see the same events.
func VerifC16WatchMapping() {
	w := vNewEtcdWorld(zzverif.Param("keys", 1))
	w.step() // something to update / delete
	ch, err := w.s.backend.Watch(context.Background(), "/r/", 0)
	zzverif.Assert(err == nil, "watch accepted")
	ch2, err := w.s.backend.Watch(context.Background(), "/r/", 0)
	zzverif.Assert(err == nil, "second watch accepted")
	before := w.g.Clone()
	from := w.dealt + 1
	w.step()
	zzverif.WaitIdle()
	drain := func(ch <-chan []*mvccpb.Event) (evs []*mvccpb.Event) {
		for {
			select {
			case b := <-ch:
				evs = append(evs, b...)
				zzverif.WaitIdle()
			default:
				return
			}
		}
	}
	check := func(evs []*mvccpb.Event) {
		// at most one successful write happened after the watch started
		changed := false
		for i := 0; i < w.nkeys; i++ {
			key := vEKeys[i]
			nb, hb := before.Newest(key)
			na, ha := w.g.Newest(key)
			if ha && (!hb || na.Rev != nb.Rev) {
				changed = true
				zzverif.Assert(len(evs) == 1, "one event for one successful write")
				e := evs[0]
				zzverif.Assert(zzverif.BytesEq(e.Kv.Key, key), "event key")
				zzverif.Assert(e.Kv.ModRevision == int64(na.Rev), "event revision")
				if na.Del {
					zzverif.Assert(e.Type == mvccpb.DELETE, "delete is announced as DELETE")
					zzverif.Assert(e.PrevKv != nil && zzverif.BytesEq(e.PrevKv.Value, nb.Val) && e.PrevKv.ModRevision == int64(nb.Rev), "DELETE carries the previous kv")
					zzverif.Cover("delete-event")
				} else {
					zzverif.Assert(e.Type == mvccpb.PUT, "create/update is announced as PUT")
					zzverif.Assert(zzverif.BytesEq(e.Kv.Value, na.Val), "PUT carries the new value")
					zzverif.Cover("put-event")
				}
			}
		}
		if !changed {
			zzverif.Assert(len(evs) == 0, "no event for a failed write")
			zzverif.Cover("no-event")
		}
	}
	check(drain(ch))
	check(drain(ch2))
	ch3, err := w.s.backend.Watch(context.Background(), "/r/", from)
	if err == nil {
		zzverif.WaitIdle()
		check(drain(ch3))
		zzverif.Cover("replayed-from-cache")
	}
}
