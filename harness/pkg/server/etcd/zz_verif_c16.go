//go:build verif

package etcd

import (
	"context"

	"go.etcd.io/etcd/api/v3/etcdserverpb"

	"github.com/kubewharf/kubebrain/pkg/zzmodel"
	"github.com/kubewharf/kubebrain/pkg/zzsrv"
	"github.com/kubewharf/kubebrain/pkg/zzverif"
)

var vKeys = [][]byte{[]byte("/r/a"), []byte("/r/b")}

type vOpSpec struct {
	kind     int // 0 put, 1 range, 2 delete-range
	key      int
	rangeEnd bool
	prevKv   bool
	ignVal   bool
	ignLease bool
}

func vDrawOp(tag string) (vOpSpec, *etcdserverpb.RequestOp) {
	s := vOpSpec{kind: zzverif.Choose(tag+".kind", 3), key: zzverif.Choose(tag+".key", 2)}
	switch s.kind {
	case 0:
		s.prevKv = zzverif.Bool(tag + ".prevKv")
		s.ignVal = zzverif.Bool(tag + ".ignoreValue")
		s.ignLease = zzverif.Bool(tag + ".ignoreLease")
		return s, &etcdserverpb.RequestOp{Request: &etcdserverpb.RequestOp_RequestPut{RequestPut: &etcdserverpb.PutRequest{
			Key: vKeys[s.key], Value: []byte("v"), PrevKv: s.prevKv, IgnoreValue: s.ignVal, IgnoreLease: s.ignLease}}}
	case 1:
		s.rangeEnd = zzverif.Choose(tag+".rangeEnd", 2) == 1
		r := &etcdserverpb.RangeRequest{Key: vKeys[s.key]}
		if s.rangeEnd {
			r.RangeEnd = []byte("/r/z")
		}
		return s, &etcdserverpb.RequestOp{Request: &etcdserverpb.RequestOp_RequestRange{RequestRange: r}}
	default:
		s.rangeEnd = zzverif.Choose(tag+".rangeEnd", 2) == 1
		s.prevKv = zzverif.Bool(tag + ".prevKv")
		r := &etcdserverpb.DeleteRangeRequest{Key: vKeys[s.key], PrevKv: s.prevKv}
		if s.rangeEnd {
			r.RangeEnd = []byte("/r/z")
		}
		return s, &etcdserverpb.RequestOp{Request: &etcdserverpb.RequestOp_RequestDeleteRange{RequestDeleteRange: r}}
	}
}

func (s vOpSpec) plainPut(key int) bool {
	return s.kind == 0 && s.key == key && !s.prevKv && !s.ignVal && !s.ignLease
}
func (s vOpSpec) plainGet(key int) bool { return s.kind == 1 && s.key == key && !s.rangeEnd }
func (s vOpSpec) plainDel(key int) bool { return s.kind == 2 && s.key == key && !s.rangeEnd }

// VerifC16Classify: every structurally valid transaction is either one of the shapes Kubernetes
// issues — and is then executed as exactly that operation on that key — or it is rejected with an
// error and no write reaches the backend.
func VerifC16Classify() {
	rec := &zzsrv.RecBackend{}
	peers := &zzsrv.Peers{Leader: true}
	s := New(rec, zzmodel.NoMetrics{}, peers)
	txn := &etcdserverpb.TxnRequest{}
	// compares
	ncmp := zzverif.Choose("ncmp", zzverif.Param("maxcmp", 1)+1)
	cmpKey, cmpMod, cmpEq, cmpVersion := -1, false, false, false
	var cmpRev int64
	for i := 0; i < ncmp; i++ {
		tag := "cmp" + string(rune('0'+i))
		k := zzverif.Choose(tag+".key", 3) // 2 = the compaction key
		target := []etcdserverpb.Compare_CompareTarget{etcdserverpb.Compare_MOD, etcdserverpb.Compare_VERSION, etcdserverpb.Compare_CREATE}[zzverif.Choose(tag+".target", 3)]
		result := []etcdserverpb.Compare_CompareResult{etcdserverpb.Compare_EQUAL, etcdserverpb.Compare_GREATER, etcdserverpb.Compare_NOT_EQUAL}[zzverif.Choose(tag+".result", 3)]
		rev := zzverif.I64(tag + ".rev")
		c := &etcdserverpb.Compare{Target: target, Result: result}
		if k < 2 {
			c.Key = vKeys[k]
		} else {
			c.Key = []byte("compact_rev_key")
		}
		switch target {
		case etcdserverpb.Compare_MOD:
			c.TargetUnion = &etcdserverpb.Compare_ModRevision{ModRevision: rev}
		case etcdserverpb.Compare_VERSION:
			c.TargetUnion = &etcdserverpb.Compare_Version{Version: rev}
		default:
			c.TargetUnion = &etcdserverpb.Compare_CreateRevision{CreateRevision: rev}
		}
		txn.Compare = append(txn.Compare, c)
		if i == 0 {
			cmpKey, cmpMod, cmpEq, cmpRev = k, target == etcdserverpb.Compare_MOD, result == etcdserverpb.Compare_EQUAL, rev
			cmpVersion = target == etcdserverpb.Compare_VERSION
		}
	}
	nsucc := zzverif.Choose("nsucc", 3)
	nfail := zzverif.Choose("nfail", zzverif.Param("maxfail", 1)+1)
	var succ, fail []vOpSpec
	for i := 0; i < nsucc; i++ {
		sp, op := vDrawOp("s" + string(rune('0'+i)))
		succ = append(succ, sp)
		txn.Success = append(txn.Success, op)
	}
	for i := 0; i < nfail; i++ {
		sp, op := vDrawOp("f" + string(rune('0'+i)))
		fail = append(fail, sp)
		txn.Failure = append(txn.Failure, op)
	}

	// reference classifier: the shapes of k8s.io/apiserver/pkg/storage/etcd3
	want := ""
	wantKey := -1
	guard := ncmp == 1 && cmpMod && cmpEq && cmpKey >= 0 && cmpKey < 2
	switch {
	case guard && nsucc == 1 && nfail == 0 && succ[0].plainPut(cmpKey):
		if cmpRev == 0 {
			want, wantKey = "create", cmpKey
		}
	case guard && nsucc == 1 && nfail == 1 && succ[0].plainPut(cmpKey) && fail[0].plainGet(cmpKey):
		want, wantKey = "update", cmpKey
	case guard && nsucc == 1 && nfail == 1 && succ[0].plainDel(cmpKey) && fail[0].plainGet(cmpKey):
		want, wantKey = "delete", cmpKey
	case ncmp == 0 && nsucc == 2 && nfail == 0 && succ[0].plainGet(succ[1].key) && succ[1].plainDel(succ[1].key):
		want, wantKey = "delete", succ[1].key
	case ncmp == 1 && cmpKey == 2 && cmpVersion && cmpEq && nsucc == 1 && nfail == 1 && succ[0].kind == 0 && fail[0].kind == 1:
		want = "compact-probe" // answered with the fixed "compaction is not driven by clients" response
	}

	resp, err := s.Txn(context.Background(), txn)
	switch want {
	case "":
		zzverif.Assert(rec.NWrite == 0, "an unsupported transaction is never executed as something else")
		zzverif.Assert(err != nil, "an unsupported transaction is rejected with an error")
		zzverif.Cover("rejected")
	case "compact-probe":
		zzverif.Assert(rec.NWrite == 0 && err == nil && resp != nil, "compaction probe answered without touching the backend")
		zzverif.Cover("compact-probe")
	default:
		zzverif.Assert(err == nil, "supported shape accepted")
		zzverif.Assert(rec.NWrite == 1 && rec.Op == want, "supported shape executed as the operation it denotes")
		zzverif.Assert(string(rec.Key) == string(vKeys[wantKey]), "operation applied to the key the transaction names")
		if want != "create" && ncmp == 1 {
			zzverif.Assert(rec.Rev == uint64(cmpRev), "expected revision passed through")
		}
		zzverif.Cover("executed-" + want)
	}
}
