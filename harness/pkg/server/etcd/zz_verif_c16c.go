//go:build verif

package etcd

import (
	"context"
	"io"

	proto "github.com/kubewharf/kubebrain-client/api/v2rpc"
	"go.etcd.io/etcd/api/v3/etcdserverpb"
	"go.etcd.io/etcd/api/v3/mvccpb"
	"google.golang.org/grpc/metadata"

	"github.com/kubewharf/kubebrain/pkg/zzverif"
)

// vSlowStream is a watch stream whose Send takes its time (as marshalling and a slow connection
// do): it reads the response only when the harness lets it, then keeps what it saw.
type vSlowStream struct {
	ctx     context.Context
	reqs    []*etcdserverpb.WatchRequest
	seen    []vSeenEvent
	hdrs    []int64
	entered chan struct{} // one token per Send that has begun
	release chan struct{} // one token lets one Send go on and read its response
}

type vSeenEvent struct {
	typ      mvccpb.Event_EventType
	key, val []byte
	rev      int64
	prevRev  int64
	hasPrev  bool
}

func (w *vSlowStream) Send(r *etcdserverpb.WatchResponse) error {
	if r.Created || r.Canceled {
		return nil
	}
	// the batch is on its way to the client: the harness decides when it is read
	w.entered <- struct{}{}
	<-w.release
	last := int64(0)
	for _, e := range r.Events {
		s := vSeenEvent{typ: e.Type, key: append([]byte(nil), e.Kv.Key...), val: append([]byte(nil), e.Kv.Value...), rev: e.Kv.ModRevision}
		if e.PrevKv != nil {
			s.hasPrev, s.prevRev = true, e.PrevKv.ModRevision
		}
		w.seen = append(w.seen, s)
		last = e.Kv.ModRevision
	}
	zzverif.Assert(r.Header != nil && r.Header.Revision == last, "a watch response's header names the revision of its last event")
	w.hdrs = append(w.hdrs, r.Header.Revision)
	return nil
}
func (w *vSlowStream) Recv() (*etcdserverpb.WatchRequest, error) {
	if len(w.reqs) == 0 {
		<-w.ctx.Done()
		return nil, io.EOF
	}
	r := w.reqs[0]
	w.reqs = w.reqs[1:]
	return r, nil
}
func (w *vSlowStream) SetHeader(metadata.MD) error  { return nil }
func (w *vSlowStream) SendHeader(metadata.MD) error { return nil }
func (w *vSlowStream) SetTrailer(metadata.MD)       {}
func (w *vSlowStream) Context() context.Context     { return w.ctx }
func (w *vSlowStream) SendMsg(m interface{}) error  { return nil }
func (w *vSlowStream) RecvMsg(m interface{}) error  { return nil }

// VerifC16WatchStream: a prefix watch through the etcd Watch handler (stream server, shim,
// backend) with a client connection that is slow to take each response, while several writes
// follow one another (create, update, delete of one key — each its own batch): each write's batch
// reaches the shim's converter while the response for the previous one is still being sent. The client
// sees exactly one PUT / DELETE per write, in revision order, each with its own key, value and
// previous revision, and every response's header names its last event.
func VerifC16WatchStream() {
	w := vNewEtcdWorld(1)
	ctx, cancel := context.WithCancel(context.Background())
	ws := &vSlowStream{ctx: ctx, reqs: []*etcdserverpb.WatchRequest{{RequestUnion: &etcdserverpb.WatchRequest_CreateRequest{
		CreateRequest: &etcdserverpb.WatchCreateRequest{Key: []byte("/r/"), RangeEnd: []byte("/r0"), PrevKv: true}}}},
		entered: make(chan struct{}, 8), release: make(chan struct{})}
	done := make(chan struct{}, 1)
	go func() {
		w.s.Watch(ws)
		done <- struct{}{}
	}()
	zzverif.WaitIdle()
	key := vEKeys[0]
	n := zzverif.Param("writes", 2)
	var last uint64
	type wrote struct {
		del bool
		val []byte
		rev uint64
		prv uint64
	}
	var ref []wrote
	for i := 0; i < n; i++ {
		val := zzverif.Bytes("v"+string(rune('0'+i)), 1)
		switch {
		case last == 0:
			r, err := w.be.Create(context.Background(), &proto.CreateRequest{Key: key, Value: val})
			zzverif.Assert(err == nil && r.Succeeded, "create")
			ref = append(ref, wrote{false, val, r.Header.Revision, 0})
			last = r.Header.Revision
		case i == n-1 && zzverif.Choose("endWithDelete", 2) == 1:
			r, err := w.be.Delete(context.Background(), &proto.DeleteRequest{Key: key, Revision: last})
			zzverif.Assert(err == nil && r.Succeeded, "delete")
			ref = append(ref, wrote{true, nil, r.Header.Revision, last})
			last = 0
		default:
			r, err := w.be.Update(context.Background(), &proto.UpdateRequest{Kv: &proto.KeyValue{Key: key, Value: val, Revision: last}})
			zzverif.Assert(err == nil && r.Succeeded, "update")
			ref = append(ref, wrote{false, val, r.Header.Revision, last})
			last = r.Header.Revision
		}
		// the next batch reaches the shim while the previous response is still being sent
		zzverif.WaitIdle()
		if i > 0 {
			ws.release <- struct{}{} // the previous Send reads its response now
		}
		<-ws.entered // the Send of this write's response has begun
	}
	ws.release <- struct{}{}
	zzverif.WaitIdle()
	zzverif.Assert(len(ws.seen) == len(ref), "the client sees exactly one event per successful write")
	for i, e := range ws.seen {
		if i >= len(ref) {
			break
		}
		zzverif.Assert(e.rev == int64(ref[i].rev), "events reach the client in revision order, each once")
		zzverif.Assert(zzverif.BytesEq(e.key, key), "event key")
		if ref[i].del {
			zzverif.Assert(e.typ == mvccpb.DELETE, "delete is announced as DELETE")
			zzverif.Assert(e.hasPrev && e.prevRev == int64(ref[i].prv), "DELETE carries the previous kv")
			zzverif.Cover("delete-event")
		} else {
			zzverif.Assert(e.typ == mvccpb.PUT, "create/update is announced as PUT")
			zzverif.Assert(zzverif.BytesEq(e.val, ref[i].val), "PUT carries the value written at its revision")
		}
	}
	if len(ws.hdrs) > 1 {
		zzverif.Cover("several-responses")
	}
	cancel()
	zzverif.WaitIdle()
	zzverif.Cover("done")
}
