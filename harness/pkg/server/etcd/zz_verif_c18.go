//go:build verif

package etcd

import (
	"context"
	"errors"
	"io"

	"go.etcd.io/etcd/api/v3/etcdserverpb"
	"google.golang.org/grpc/metadata"

	"github.com/kubewharf/kubebrain/pkg/zzmodel"
	"github.com/kubewharf/kubebrain/pkg/zzsrv"
	"github.com/kubewharf/kubebrain/pkg/zzverif"
)

// vWatchStream is a Watch_WatchServer stub: it hands out the queued requests, then EOF.
type vWatchStream struct {
	reqs []*etcdserverpb.WatchRequest
	sent []*etcdserverpb.WatchResponse
	ctx  context.Context
}

func (w *vWatchStream) Send(r *etcdserverpb.WatchResponse) error {
	w.sent = append(w.sent, r)
	return nil
}
func (w *vWatchStream) Recv() (*etcdserverpb.WatchRequest, error) {
	if len(w.reqs) == 0 {
		return nil, io.EOF
	}
	r := w.reqs[0]
	w.reqs = w.reqs[1:]
	return r, nil
}
func (w *vWatchStream) SetHeader(metadata.MD) error  { return nil }
func (w *vWatchStream) SendHeader(metadata.MD) error { return nil }
func (w *vWatchStream) SetTrailer(metadata.MD)       {}
func (w *vWatchStream) Context() context.Context     { return w.ctx }
func (w *vWatchStream) SendMsg(m interface{}) error  { return nil }
func (w *vWatchStream) RecvMsg(m interface{}) error  { return nil }

// VerifC18Etcd: every request type of the etcd API x {leader, follower} x {proxy on, off} x
// {leader reachable or not}: a follower never writes and never serves a watch from its own
// history; it reads only after adopting the leader's revision, and fails the read if that fails.
func VerifC18Etcd() {
	peers := &zzsrv.Peers{Leader: zzverif.Choose("leader", 2) == 1, Proxy: zzverif.Choose("proxy", 2) == 1}
	if zzverif.Choose("leaderUnreachable", 2) == 1 {
		peers.SyncErr = errors.New("leader unreachable")
	}
	rec := &zzsrv.RecBackend{Peer: peers}
	s := New(rec, zzmodel.NoMetrics{}, peers)
	ctx := context.Background()
	key := []byte("/r/a")
	// request fields a handler might (wrongly) take for a reason not to ask the leader
	rev, limit, val := zzverif.I64("rev"), zzverif.I64("limit"), zzverif.Bytes("val", 1)
	switch zzverif.Choose("request", 7) {
	case 0, 1, 2: // the three write shapes
		var txn *etcdserverpb.TxnRequest
		switch zzverif.Choose("shape", 3) {
		case 0:
			txn = &etcdserverpb.TxnRequest{Compare: []*etcdserverpb.Compare{vCmpMod(key, 0)}, Success: []*etcdserverpb.RequestOp{vOpPut(key, val)}}
		case 1:
			zzverif.Assume(rev != 0)
			txn = &etcdserverpb.TxnRequest{Compare: []*etcdserverpb.Compare{vCmpMod(key, rev)}, Success: []*etcdserverpb.RequestOp{vOpPut(key, val)}, Failure: []*etcdserverpb.RequestOp{vOpGet(key)}}
		default:
			txn = &etcdserverpb.TxnRequest{Compare: []*etcdserverpb.Compare{vCmpMod(key, rev)}, Success: []*etcdserverpb.RequestOp{vOpDel(key)}, Failure: []*etcdserverpb.RequestOp{vOpGet(key)}}
		}
		_, err := s.Txn(ctx, txn)
		if !peers.Leader {
			zzverif.Assert(rec.NWrite == 0, "a follower never applies a write")
			if peers.Proxy {
				zzverif.Assert(peers.ProxyTxn == 1, "follower with proxy forwards the write to the leader")
				zzverif.Cover("write-forwarded")
			} else {
				zzverif.Assert(err != nil, "follower without proxy rejects the write")
				zzverif.Cover("write-rejected")
			}
		} else {
			zzverif.Assert(rec.NWrite == 1 && err == nil, "the leader applies the write")
			zzverif.Cover("write-applied")
		}
	case 3, 4, 5: // get, list, count
		r := &etcdserverpb.RangeRequest{Key: key, Revision: rev, Limit: limit}
		zzverif.Assume(rev != GetPartitionMagic) // the partition-listing escape hatch is the case below
		switch zzverif.Choose("read", 4) {
		case 1:
			r.RangeEnd = []byte("/r/z")
		case 2:
			r.RangeEnd, r.CountOnly = []byte("/r/z"), true
		case 3:
			r.RangeEnd, r.Revision = []byte("/r/z"), GetPartitionMagic
		}
		_, err := s.Range(ctx, r)
		zzverif.Assert(rec.UnsyncedReads == 0, "a read reaches the backend only after the leader's revision was adopted")
		if peers.SyncErr != nil {
			zzverif.Assert(err != nil && rec.NRead == 0, "if the leader cannot be reached the read fails without touching the backend")
			zzverif.Cover("read-refused")
		} else {
			zzverif.Assert(err == nil && rec.NRead == 1 && peers.SyncCalls >= 1, "read served after syncing")
			zzverif.Cover("read-served")
		}
	default: // watch stream with one create request
		ws := &vWatchStream{ctx: ctx, reqs: []*etcdserverpb.WatchRequest{{RequestUnion: &etcdserverpb.WatchRequest_CreateRequest{
			CreateRequest: &etcdserverpb.WatchCreateRequest{Key: []byte("/r/"), StartRevision: zzverif.I64("start")}}}}}
		start := ws.reqs[0].GetCreateRequest().StartRevision
		s.Watch(ws)
		zzverif.WaitIdle()
		if start < 0 {
			// a negative start revision is a streamed range read: a read like any other
			zzverif.Assert(rec.NWatch == 0, "a streamed range read is not a watch")
			zzverif.Assert(rec.UnsyncedReads == 0, "a streamed read reaches the backend only after the leader's revision was adopted")
			if peers.SyncErr != nil {
				zzverif.Assert(rec.NRead == 0, "if the leader cannot be reached the streamed read fails without touching the backend")
				zzverif.Cover("stream-refused")
			} else if rec.NRead == 1 {
				zzverif.Cover("stream-served")
			}
			return
		}
		if !peers.Leader {
			zzverif.Assert(rec.NWatch == 0, "a follower never serves a watch from its own event history")
			if peers.Proxy {
				zzverif.Assert(peers.ProxyWat == 1, "follower with proxy forwards the watch to the leader")
				zzverif.Cover("watch-forwarded")
			} else {
				zzverif.Cover("watch-rejected")
			}
		} else {
			zzverif.Assert(rec.NWatch == 1, "the leader serves the watch")
			zzverif.Cover("watch-served")
		}
	}
}
