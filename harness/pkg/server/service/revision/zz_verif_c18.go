//go:build verif

package revision

import (
	"encoding/json"
	"sync"
	"time"

	"github.com/kubewharf/kubebrain/pkg/backend/tso"
	"github.com/kubewharf/kubebrain/pkg/server/service/leader"
	"github.com/kubewharf/kubebrain/pkg/zzmodel"
	"github.com/kubewharf/kubebrain/pkg/zzverif"
)

type vBackend struct {
	mu   sync.Mutex
	sets []uint64
	rev  tso.TSO // if set: the node's real revision generator (reads are served at its committed revision)
}

func (b *vBackend) SetCurrentRevision(r uint64) {
	b.mu.Lock()
	b.sets = append(b.sets, r)
	b.mu.Unlock()
	if b.rev != nil {
		b.rev.Commit(r)
	}
}

// last is the revision a read issued now is served at.
func (b *vBackend) last() uint64 {
	if b.rev != nil {
		return b.rev.GetRevision()
	}
	b.mu.Lock()
	defer b.mu.Unlock()
	if len(b.sets) == 0 {
		return 0
	}
	return b.sets[len(b.sets)-1]
}

// VerifC18Sync: one follower read against a leader that answers, answers with an error status,
// cannot be reached, or whose answer is cut after the headers: the read either adopts the leader's
// current revision or fails — it never succeeds with anything else.
func VerifC18Sync() {
	leaderRev := zzverif.U64("leaderRev")
	zzverif.Assume(leaderRev > 0)
	mode := zzverif.Choose("answer", 5)
	requests := 0
	zzverif.SetHTTPHandler(func(url string) zzverif.HTTPResult {
		requests++
		body, _ := json.Marshal(LeaderRevision{Revision: leaderRev})
		switch mode {
		case 1:
			return zzverif.HTTPResult{Status: 503, Body: []byte("not leader")}
		case 2:
			return zzverif.HTTPResult{Unreachable: true}
		case 3:
			return zzverif.HTTPResult{Status: 200, Body: body, BodyCut: true}
		case 4:
			// something else than the leader answers on that address (a proxy's page, another service)
			return zzverif.HTTPResult{Status: 200, Body: []byte("<html>not a revision</html>")}
		}
		return zzverif.HTTPResult{Status: 200, Body: body}
	})
	be := &vBackend{}
	le := &leader.Stub{ElectionInfo: leader.ElectionInfo{LeaderAddress: zzverif.HTTPAddr(), IsLeader: false}}
	s := NewRevisionSyncer(be, zzmodel.NoMetrics{}, le, nil)
	err := s.SyncReadRevision()
	if mode == 0 {
		zzverif.Assert(err == nil, "a reachable leader's answer is adopted")
		zzverif.Assert(be.last() == leaderRev, "the follower reads at the leader's revision")
		zzverif.Cover("adopted")
	} else {
		zzverif.Assert(err != nil, "if the leader's revision cannot be obtained the read fails")
		zzverif.Assert(len(be.sets) == 0, "a failed sync does not change the follower's revision")
		zzverif.Cover("refused")
	}
	zzverif.Assert(requests >= 1, "the leader was asked")
}

// VerifC18Concurrent: two follower reads while the leader's revision advances and while any one
// of the leader's answers is an error or never arrives: a successful read uses a revision >= the
// leader's committed revision at the moment the read began (a read that cannot get such a revision
// fails).
func VerifC18Concurrent() {
	// the leader's revision is read and written only inside gate passages (zzverif.AtGate), so the
	// recorded order of gates fixes every value a native replay sees
	// the forced native schedule holds the leader's answer at gates; a loaded machine must not turn
	// that into a client timeout (the model of the HTTP client has no timeout either)
	syncRevTimeout = 30 * time.Second
	leaderRev := uint64(10)
	asked := make([]int, 2)
	cur := -1
	// the leader's k-th answer is an error status or never arrives (0: every request is answered)
	failAt := zzverif.Choose("failAt", zzverif.Param("failat", 3)+1)
	failHow := 0
	if failAt != 0 {
		failHow = zzverif.Choose("failHow", 2)
	}
	nreq := 0
	zzverif.SetHTTPHandler(func(url string) zzverif.HTTPResult {
		var r uint64
		fail := false
		zzverif.AtGate("leader.sample", func() {
			r = leaderRev
			nreq++
			fail = nreq == failAt
		})
		body, _ := json.Marshal(LeaderRevision{Revision: r})
		zzverif.YieldAt("leader.answer")
		// the answer can be on its way for a while (a reader that joins meanwhile shares it)
		zzverif.YieldAt("leader.answered")
		if fail {
			zzverif.Cover("leader-failed-once")
			if failHow == 1 {
				return zzverif.HTTPResult{Unreachable: true}
			}
			return zzverif.HTTPResult{Status: 503, Body: []byte("busy")}
		}
		return zzverif.HTTPResult{Status: 200, Body: body}
	})
	_ = cur
	le := &leader.Stub{ElectionInfo: leader.ElectionInfo{LeaderAddress: zzverif.HTTPAddr(), IsLeader: false}}
	bes := []*vBackend{{rev: tso.NewTSO()}, {}}
	// both readers are requests on the same follower node: one syncer, one backend
	be := bes[0]
	s := NewRevisionSyncer(be, zzmodel.NoMetrics{}, le, nil)
	begins := make([]uint64, 2)
	used := make([]uint64, 2)
	errs := make([]error, 2)
	var wg sync.WaitGroup
	wg.Add(3)
	zzverif.ExploreSchedules(zzverif.Param("preempt", 2))
	for i := 0; i < 2; i++ {
		i := i
		zzverif.Go("r"+string(rune('0'+i)), func() {
			zzverif.AtGate("begin", func() { begins[i] = leaderRev })
			errs[i] = s.SyncReadRevision()
			used[i] = be.last()
			asked[i] = 1
			wg.Done()
		})
	}
	zzverif.Go("leader", func() {
		// the leader commits a write at some point
		zzverif.AtGate("leader.commit", func() { leaderRev++ })
		wg.Done()
	})
	wg.Wait()
	zzverif.StopExploring()
	for i := 0; i < 2; i++ {
		if errs[i] != nil {
			continue
		}
		stale := used[i] < begins[i]
		if stale {
			// the only way: the read shared another reader's in-flight fetch, or a slower reader's
			// older answer was stored after this reader's newer one
			zzverif.Finding("follower_reads_share_fetch_or_store_out_of_order", true)
		}
		zzverif.Assert(!stale, "a successful follower read uses a revision >= the leader's committed revision when the read began")
	}
	zzverif.Cover("done")
}
