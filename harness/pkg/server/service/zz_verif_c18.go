//go:build verif

package service

import (
	"encoding/json"
	"strings"

	"github.com/kubewharf/kubebrain/pkg/server/service/leader"
	"github.com/kubewharf/kubebrain/pkg/server/service/revision"
	"github.com/kubewharf/kubebrain/pkg/zzmodel"
	"github.com/kubewharf/kubebrain/pkg/zzsrv"
	"github.com/kubewharf/kubebrain/pkg/zzverif"
)

// VerifC18PeerService: the real peer service (as NewServer builds it: the revision syncer behind
// the PeerService interface every read handler calls) on a node that is not leader and that knows
// the leader's address, or knows none yet ("empty" — the election record has no holder or has not
// been read since the restart — or ""): the read revision is adopted from the leader, or the sync
// fails. A follower never lets a read through at its own revision because it does not know whom to ask.
func VerifC18PeerService() {
	leaderRev := zzverif.U64("leaderRev")
	zzverif.Assume(leaderRev > 0)
	zzverif.SetHTTPHandler(func(url string) zzverif.HTTPResult {
		// (natively only requests addressed to the test server arrive here, with the path as url)
		if zzverif.Symbolic() && !strings.Contains(url, "//"+zzverif.HTTPAddr()+"/") {
			return zzverif.HTTPResult{Unreachable: true} // nobody listens there
		}
		body, _ := json.Marshal(revision.LeaderRevision{Revision: leaderRev})
		return zzverif.HTTPResult{Status: 200, Body: body}
	})
	which := zzverif.Choose("knownLeader", 3)
	addr := []string{"", "empty", zzverif.HTTPAddr()}[which]
	fb := &zzsrv.RecBackend{CurRev: 1}
	le := &leader.Stub{ElectionInfo: leader.ElectionInfo{LeaderAddress: addr, IsLeader: false}}
	ps := NewPeerService(le, zzmodel.NoMetrics{}, fb, Config{})
	err := ps.SyncReadRevision()
	if which == 2 {
		zzverif.Assert(err == nil, "a reachable leader's answer is adopted")
		zzverif.Assert(len(fb.RevSets) == 1 && fb.RevSets[0] == leaderRev, "the follower reads at the leader's revision")
		zzverif.Cover("adopted")
	} else {
		zzverif.Assert(err != nil, "a follower that knows no leader cannot obtain the leader's revision: its read fails")
		zzverif.Assert(len(fb.RevSets) == 0, "a failed sync does not change the follower's revision")
		zzverif.Cover("no-leader-known")
	}
}
