// Package zzverif is the harness API of gosym. Under the symbolic executor every function
// here is intercepted; this native implementation is used when a counterexample (or a
// sampled path) is replayed against the real build: values come from the file named by
// VERIF_REPLAY (a JSON object {"model":{name:value}, "choices":{name:int}}).
package zzverif

import (
	"encoding/json"
	"fmt"
	"os"
	"runtime"
	"strconv"
	"strings"
	"sync"
	"time"
)

type replay struct {
	Model    map[string]uint64 `json:"model"`
	Choices  map[string]int    `json:"choices"`
	Params   map[string]int    `json:"params"`
	Schedule []string          `json:"schedule"`
}

var (
	mu       sync.Mutex
	rp       replay
	loaded   bool
	counts   = map[string]int{}
	Observed []string
	Failed   []string
	stamp    int
)

// AssertFailure is the panic value raised natively by a failed Assert.
type AssertFailure struct{ Label string }

func load() {
	if loaded {
		return
	}
	loaded = true
	rp = replay{Model: map[string]uint64{}, Choices: map[string]int{}, Params: map[string]int{}}
	if f := os.Getenv("VERIF_REPLAY"); f != "" {
		b, err := os.ReadFile(f)
		if err != nil {
			panic("zzverif: cannot read replay file: " + err.Error())
		}
		if err := json.Unmarshal(b, &rp); err != nil {
			panic("zzverif: bad replay file: " + err.Error())
		}
	}
}

// Reset clears per-run state (native replays of several harnesses in one process).
func Reset() {
	mu.Lock()
	defer mu.Unlock()
	counts = map[string]int{}
	Observed = nil
	Failed = nil
	stamp = 0
	gmu.Lock()
	gpos = 0
	gnames = map[string]string{}
	gmu.Unlock()
}

func uniq(name string) string {
	n := counts[name]
	counts[name] = n + 1
	if n == 0 {
		return name
	}
	return name + "#" + strconv.Itoa(n)
}

func val(name string) uint64 {
	mu.Lock()
	defer mu.Unlock()
	load()
	return rp.Model[uniq(name)]
}

func U64(name string) uint64 { return val(name) }
func I64(name string) int64  { return int64(val(name)) }
func Int(name string) int    { return int(val(name)) }
func Byte(name string) byte  { return byte(val(name)) }
func Bool(name string) bool  { return val(name) == 1 }

func Bytes(name string, n int) []byte {
	out := make([]byte, n)
	for i := range out {
		out[i] = byte(val(name + "[" + strconv.Itoa(i) + "]"))
	}
	return out
}

// Choose returns a nondeterministic value in 0..n-1 (every alternative is explored).
func Choose(name string, n int) int {
	mu.Lock()
	defer mu.Unlock()
	load()
	return rp.Choices[uniq("choose:"+name)]
}

// Param returns a concrete bound supplied by the driver (tier dependent).
func Param(name string, def int) int {
	mu.Lock()
	defer mu.Unlock()
	load()
	if v, ok := rp.Params[name]; ok {
		return v
	}
	return def
}

func Assume(c bool) {
	if !c {
		panic("zzverif: assumption violated in native replay (UNCONFIRMED)")
	}
}

func Assert(c bool, label string) {
	if !c {
		mu.Lock()
		Failed = append(Failed, label)
		mu.Unlock()
		// an assertion may fail in a goroutine of the code under test (e.g. inside a store hook),
		// where nothing recovers the panic: leave a line the replay driver can read
		fmt.Println("VERIF-ASSERT-FAILED " + label)
		panic(AssertFailure{label})
	}
}

func Fail(label string) { Assert(false, label) }

func Cover(label string) {}

func And(a, b bool) bool     { return a && b }
func Or(a, b bool) bool      { return a || b }
func Not(a bool) bool        { return !a }
func Implies(a, b bool) bool { return !a || b }
func IteU64(c bool, a, b uint64) uint64 {
	if c {
		return a
	}
	return b
}

func BytesEq(a, b []byte) bool   { return string(a) == string(b) }
func BytesLess(a, b []byte) bool { return string(a) < string(b) }
func HasPrefix(a, p []byte) bool { return strings.HasPrefix(string(a), string(p)) }

// Concrete forces a symbolic value to be concretised by case split (identity natively).
func Concrete(v uint64) uint64 { return v }

func Observe(label string, vals ...interface{}) {
	s := label + ":"
	for _, v := range vals {
		switch x := v.(type) {
		case []byte:
			s += " " + strconv.Quote(string(x))
		case string:
			s += " " + strconv.Quote(x)
		case error:
			if x == nil {
				s += " <nil>"
			} else {
				s += " err"
			}
		case nil:
			s += " <nil>"
		default:
			s += " " + fmt.Sprint(x)
		}
	}
	mu.Lock()
	Observed = append(Observed, s)
	mu.Unlock()
}

// Finding names a known-finding discriminator; it returns c.
func Finding(id string, c bool) bool { return c }

// WaitIdle waits until background goroutines have quiesced. Natively: a short real-time wait.
func WaitIdle() { time.Sleep(time.Duration(Param("native_idle_ms", 60)) * time.Millisecond) }

// Go starts a named harness thread. Under gosym it is an interpreted thread; natively a
// goroutine whose passages through Yield are ordered by the replay file's schedule.
func Go(name string, f func()) {
	go func() {
		id := goid()
		gmu.Lock()
		gnames[id] = name
		gmu.Unlock()
		gateAt("start", nil) // threads start in the recorded order
		f()
	}()
}

var (
	gmu    sync.Mutex
	gcond  = sync.NewCond(&gmu)
	gnames = map[string]string{}
	gpos   int
)

// GoID identifies the calling goroutine (native replays only).
func GoID() string { return goid() }

func goid() string {
	var buf [64]byte
	n := runtime.Stack(buf[:], false)
	f := strings.Fields(string(buf[:n]))
	if len(f) >= 2 {
		return f[1]
	}
	return ""
}

// parentGoid returns the id of the goroutine that started the calling one ("created by f in
// goroutine N" at the end of its stack trace), or "".
func parentGoid() string {
	buf := make([]byte, 1<<16)
	n := runtime.Stack(buf, false)
	st := string(buf[:n])
	i := strings.LastIndex(st, "created by ")
	if i < 0 {
		return ""
	}
	line := st[i:]
	if j := strings.IndexByte(line, '\n'); j >= 0 {
		line = line[:j]
	}
	k := strings.LastIndex(line, " in goroutine ")
	if k < 0 {
		return ""
	}
	return strings.TrimSpace(line[k+len(" in goroutine "):])
}

// Yield is a scheduling point. Natively, a named thread waits here for its turn in the
// recorded schedule (unnamed goroutines and exhausted schedules pass freely).
func Yield() { gateAt("", nil) }

// YieldAt is Yield with a label for the program point. Natively a goroutine that was not started
// by zzverif.Go (for instance a scan worker inside the code under test) is identified in the
// recorded schedule by "?:"+point, a named thread by name+":"+point.
func YieldAt(point string) { gateAt(point, nil) }

// AtGate is YieldAt(point) followed by f with nothing in between: f must not contain a
// scheduling point of its own. Natively f runs while the gate is held, so the order of the f's of
// different threads is exactly the recorded order of gate passages.
func AtGate(point string, f func()) {
	if Symbolic() {
		YieldAt(point)
		f()
		return
	}
	gateAt(point, f)
}

func gate(f func()) { gateAt("", f) }

// gateAt waits for the calling thread's turn and runs f (if any) before the next thread may pass.
func gateAt(point string, f func()) {
	mu.Lock()
	load()
	sched := rp.Schedule
	mu.Unlock()
	id := goid()
	gmu.Lock()
	defer gmu.Unlock()
	ran := false
	run := func() {
		if f != nil && !ran {
			ran = true
			f()
		}
	}
	defer run()
	if len(sched) == 0 {
		return
	}
	name := gnames[id]
	if name == "" {
		// a goroutine started by the code under test: its spawner's label (if known) plus "+"
		name = "?"
		if p := gnames[parentGoid()]; p != "" && p != "?" {
			name = p + "+"
		}
		gnames[id] = name
	}
	if name == "?" && point == "" {
		return
	}
	if point != "" {
		name += ":" + point
	}
	deadline := time.Now().Add(5 * time.Second)
	waited := false
	for gpos < len(sched) && sched[gpos] != name {
		if time.Now().After(deadline) {
			return // diverged from the recorded schedule: let the run finish (reported as unconfirmed)
		}
		waited = true
		waitCond(100 * time.Millisecond)
	}
	if waited && gpos < len(sched) {
		// the previous passer's un-gated steps after its gate happened before this thread went on
		// in the recorded execution: give them time to finish
		gmu.Unlock()
		time.Sleep(time.Duration(Param("native_grace_ms", 5)) * time.Millisecond)
		gmu.Lock()
	}
	if gpos < len(sched) {
		gpos++
	}
	run()
	gcond.Broadcast()
	if !strings.HasPrefix(point, "m:") {
		return
	}
	// single-point gate (a metric emission inside the code under test): the recorded schedule
	// says, with an entry "<thread>:+", when this thread went on after the gate
	who := name
	if i := strings.IndexByte(name, ':'); i >= 0 {
		who = name[:i]
	}
	hold := time.Now().Add(time.Duration(Param("native_hold_ms", 500)) * time.Millisecond)
	held := false
	for gpos < len(sched) && sched[gpos] != who+":+" && time.Now().Before(hold) {
		found := false
		for j := gpos; j < len(sched); j++ {
			if sched[j] == who+":+" {
				found = true
				break
			}
		}
		if !found {
			return
		}
		held = true
		waitCond(20 * time.Millisecond)
	}
	if gpos < len(sched) && sched[gpos] == who+":+" {
		gpos++
		gcond.Broadcast()
		if held {
			gmu.Unlock()
			time.Sleep(time.Duration(Param("native_grace_ms", 5)) * time.Millisecond)
			gmu.Lock()
		}
	}
}

func waitCond(d time.Duration) {
	t := time.AfterFunc(d, func() { gcond.Broadcast() })
	gcond.Wait()
	t.Stop()
}

func ExploreSchedules(bound int) {}
func StopExploring()             {}
func Hold()                      {}
func Release()                   {}

// Stamp returns the next value of a global monotone counter; it is a scheduling point.
func Stamp() int {
	var v int
	gate(func() {
		stamp++
		v = stamp
	})
	return v
}
func ChanCap(site string, n int) {}

// Foreground makes background threads whose function name contains sub part of schedule exploration.
func Foreground(sub string) {}

// Symbolic reports whether the harness runs under the symbolic executor (false natively).
func Symbolic() bool { return false }

// TempDir returns a fresh scratch directory (natively; under gosym nothing touches the disk).
func TempDir() string {
	d, err := os.MkdirTemp("", "verif-")
	if err != nil {
		panic(err)
	}
	tempDirs = append(tempDirs, d)
	return d
}

var tempDirs []string

// Cleanup removes the scratch directories made by TempDir.
func Cleanup() {
	for _, d := range tempDirs {
		os.RemoveAll(d)
	}
	tempDirs = nil
}

// FireTimers runs every pending time.AfterFunc callback (natively: waits for them to fire).
func FireTimers() { time.Sleep(time.Duration(Param("native_timer_ms", 1300)) * time.Millisecond) }

// FireTickers makes every time.Ticker deliver one tick (natively tickers run on real time).
func FireTickers() { time.Sleep(time.Duration(Param("native_tick_ms", 1300)) * time.Millisecond) }

// ExpireDeadlines lets the deadline of every live context made by context.WithTimeout or
// WithDeadline pass (under gosym they are cancelled with context.DeadlineExceeded; a deadline
// never passes by itself there). Natively real time has to pass: the run sleeps for d.
func ExpireDeadlines(d time.Duration) { time.Sleep(d) }

// AdvanceClock lets an arbitrary amount of time pass (under gosym the ghost clock takes a new,
// larger symbolic reading). Natively real time has to pass when the replayed path needs it: the
// replay file holds the ghost clock's successive readings (clock, clock#1, ...); if any two of
// them are at least a second apart the native run sleeps past the (one-second) TTLs and intervals
// the harnesses configure.
func AdvanceClock() {
	mu.Lock()
	load()
	m := rp.Model
	mu.Unlock()
	var prev, maxd uint64
	have := false
	for i := 0; ; i++ {
		name := "clock"
		if i > 0 {
			name += "#" + strconv.Itoa(i)
		}
		v, ok := m[name]
		if !ok {
			break
		}
		if have && v > prev && v-prev > maxd {
			maxd = v - prev
		}
		prev, have = v, true
	}
	if maxd >= 1000000000 {
		time.Sleep(time.Duration(Param("native_clock_ms", 1300)) * time.Millisecond)
	}
}

// SetClock pins the ghost clock to a concrete instant under gosym; natively real time passes.
func SetClock(ns uint64) {}

func Threads() int { return 0 }
func PanicMessage(v interface{}) string {
	return fmt.Sprint(v)
}

// Outcome of a native run of a harness.
type Outcome struct {
	End      string   `json:"end"` // done | assert | panic
	Label    string   `json:"label,omitempty"`
	Observed []string `json:"observed"`
}

// RunNative executes a harness natively (replay) and reports how it ended.
func RunNative(f func()) (out Outcome) {
	Reset()
	defer func() {
		if p := recover(); p != nil {
			if af, ok := p.(AssertFailure); ok {
				out.End, out.Label = "assert", af.Label
			} else {
				out.End, out.Label = "panic", fmt.Sprint(p)
			}
		}
		mu.Lock()
		out.Observed = append([]string(nil), Observed...)
		mu.Unlock()
	}()
	f()
	out.End = "done"
	return
}

// PrintOutcome writes the outcome as one JSON line prefixed by VERIF-OUTCOME.
func PrintOutcome(o Outcome) {
	Cleanup()
	b, _ := json.Marshal(o)
	fmt.Println("VERIF-OUTCOME " + string(b))
}

// SetTiKVOracleFault makes the n-th following timestamp request to the TiKV client model's PD
// oracle fail (0: none). Natively it does nothing: zzc11.SetOracleFault wraps the mock store's oracle.
func SetTiKVOracleFault(n int) {}

// SetTiKVRegions tells the executor's TiKV client model where the key space is split into regions
// (ascending keys). Natively it does nothing: the mock cluster is bootstrapped with the split keys.
func SetTiKVRegions(splits [][]byte) {}
