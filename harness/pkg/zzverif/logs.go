package zzverif

import (
	"strings"
	"sync"

	"k8s.io/klog/v2"
)

// GateLogs makes every structured log line (klog.InfoS) whose message contains sub a labelled
// scheduling point "k:<message>": under gosym the executor yields there, natively a klog filter
// makes the goroutine wait for its turn in the recorded schedule. This puts a gate between two
// statements of the code under test without changing it.
func GateLogs(sub string) {
	logMu.Lock()
	defer logMu.Unlock()
	logSubs = append(logSubs, sub)
	if !logInstalled {
		logInstalled = true
		klog.SetLogFilter(logFilter{})
	}
}

var (
	logMu        sync.Mutex
	logSubs      []string
	logInstalled bool
)

type logFilter struct{}

func (logFilter) Filter(args []interface{}) []interface{} { return args }
func (logFilter) FilterF(format string, args []interface{}) (string, []interface{}) {
	return format, args
}
func (logFilter) FilterS(msg string, kv []interface{}) (string, []interface{}) {
	logMu.Lock()
	subs := logSubs
	logMu.Unlock()
	for _, s := range subs {
		if strings.Contains(msg, s) {
			YieldAt("k:" + msg)
			break
		}
	}
	return msg, kv
}
