package zzverif

import (
	"net"
	"net/http"
	"net/http/httptest"
	"strconv"
	"strings"
	"sync"
)

// HTTPResult is what the harness's "leader" answers to a status request.
type HTTPResult struct {
	Unreachable bool // the connection fails before any answer
	Status      int
	Body        []byte
	BodyCut     bool // the answer is interrupted after the headers, before the body ends
}

var (
	httpMu      sync.Mutex
	httpSrv     *httptest.Server
	httpHandler func(url string) HTTPResult
)

// SetHTTPHandler installs the function that plays the leader's /status endpoint. Under gosym it
// is called directly by the model of (*http.Client).Get; natively a real test server serves it.
func SetHTTPHandler(h func(url string) HTTPResult) {
	httpMu.Lock()
	defer httpMu.Unlock()
	httpHandler = h
	if httpSrv != nil {
		return
	}
	// (no keep-alive: a request on a re-used connection that is closed without an answer would be
	// repeated silently by net/http's client, and "unreachable" would never be seen by the caller)
	httpSrv = httptest.NewUnstartedServer(http.HandlerFunc(func(w http.ResponseWriter, r *http.Request) {
		httpMu.Lock()
		h := httpHandler
		httpMu.Unlock()
		res := h(r.URL.String())
		hj, _ := w.(http.Hijacker)
		if res.Unreachable {
			conn, _, err := hj.Hijack()
			if err == nil {
				conn.Close()
			}
			return
		}
		if res.BodyCut {
			w.Header().Set("Content-Length", strconv.Itoa(len(res.Body)+16))
			w.WriteHeader(res.Status)
			w.Write(res.Body[:len(res.Body)/2])
			if f, ok := w.(http.Flusher); ok {
				f.Flush()
			}
			conn, _, err := hj.Hijack()
			if err == nil {
				conn.Close()
			}
			return
		}
		w.WriteHeader(res.Status)
		w.Write(res.Body)
	}))
	httpSrv.Config.SetKeepAlivesEnabled(false)
	httpSrv.Start()
}

// HTTPAddr is the host:port under which the harness's leader is reachable.
func HTTPAddr() string {
	httpMu.Lock()
	defer httpMu.Unlock()
	if httpSrv == nil {
		// reserve nothing yet: callers install the handler first
		l, err := net.Listen("tcp", "127.0.0.1:0")
		if err != nil {
			panic(err)
		}
		defer l.Close()
		return l.Addr().String()
	}
	return strings.TrimPrefix(httpSrv.URL, "http://")
}
