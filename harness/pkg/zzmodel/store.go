// Package zzmodel holds the environment models shared by the gosym harnesses: a store that
// implements the documented storage.KvStorage contract (pkg/storage/interface.go), a no-op
// metrics client and the MVCC reference model. The code is plain Go: it is executed
// symbolically by gosym and natively in replays.
package zzmodel

import (
	"bytes"
	"context"
	"io"

	"github.com/kubewharf/kubebrain/pkg/storage"
)

type Ent struct {
	Key []byte
	Val []byte
	TTL int64
}

type Fault int

const (
	FaultNone           Fault = iota
	FaultErr                  // definite error, nothing applied
	FaultUnknownApplied       // error matching ErrUncertainResult, write applied
	FaultUnknownLost          // error matching ErrUncertainResult, write not applied
)

// Store is the contract store: a byte-ordered set of entries with all-or-nothing batches.
type Store struct {
	Ents []Ent
	// options
	LooseReverseFirst bool // a descending iterator may yield one element at or below its end first (TiKV adapter behaviour)
	BareCASError      bool // report failed conditions as bare ErrCASFailed instead of *storage.Conflict
	TTLSupported      bool
	Partitions        func(start, end []byte) []storage.Partition
	// fault injection: called once per write operation ("commit", "del", "delcurrent") with its ordinal
	FaultAt func(kind string, n int) Fault
	// hooks (ghost state for oracles)
	OnCommit func(ops []Op, err error)
	OnBegin  func(ops []Op)
	// counters
	NWrites  int
	NApplied int // write operations that took effect (commits)
	ClockFn  func() uint64
	TSOFault func() bool // the timestamp oracle fails when this returns true
	GetFault func(key []byte, n int) bool // the n-th point read (counted from 0 while set) fails when this returns true
	NGets    int
	// IterFault is asked before every iterator step with the iterator's start key and the ordinal
	// of the step within that iterator (both independent of how concurrent scans interleave):
	// true = the step fails
	IterFault func(start []byte, step int) bool
	NIters    int
	Clock     uint64
	ErrOther  error              // the definite error injected by FaultErr
	Yield     func(point string) // scheduling point hook (set by threaded harnesses)
	// Snapshots: GetTimestampOracle names the current state and Iter(timestamp) reads that state
	// (an engine with snapshot reads, like TiKV); without it an iterator sees the state at the
	// moment it is opened (memkv, Badger)
	Snapshots bool
	snaps     []snap
}

type snap struct {
	ver  uint64
	ents []Ent
}

// EnableSnapshots turns snapshot reads on from the current state.
func (s *Store) EnableSnapshots() {
	s.Snapshots = true
	if s.Clock == 0 {
		s.Clock = 1 // timestamp 0 means "latest"
	}
	s.snaps = []snap{{s.Clock, s.clone()}}
}

// changed records the state after a write that took effect.
func (s *Store) changed() {
	if s.Snapshots {
		s.Clock++
		s.snaps = append(s.snaps, snap{s.Clock, s.clone()})
	}
}

// at returns the entries visible at timestamp ts.
func (s *Store) at(ts uint64) []Ent {
	if !s.Snapshots || ts == 0 {
		return s.Ents
	}
	cur := s.snaps[0].ents
	for _, sn := range s.snaps {
		if sn.ver <= ts {
			cur = sn.ents
		}
	}
	return cur
}

var ErrInjected = storage.ErrUnavailable

func NewStore() *Store { return &Store{} }

func (s *Store) yield(p string) {
	if s.Yield != nil {
		s.Yield(p)
	}
}

func (s *Store) find(key []byte) (int, bool) {
	// linear scan keeps decisions few when keys differ in concrete bytes
	for i := range s.Ents {
		c := bytes.Compare(s.Ents[i].Key, key)
		if c == 0 {
			return i, true
		}
		if c > 0 {
			return i, false
		}
	}
	return len(s.Ents), false
}

func cp(b []byte) []byte {
	if b == nil {
		return nil
	}
	out := make([]byte, len(b))
	copy(out, b)
	return out
}

func (s *Store) put(key, val []byte, ttl int64) {
	i, ok := s.find(key)
	if ok {
		s.Ents[i].Val = cp(val)
		s.Ents[i].TTL = ttl
		return
	}
	s.Ents = append(s.Ents, Ent{})
	copy(s.Ents[i+1:], s.Ents[i:])
	s.Ents[i] = Ent{Key: cp(key), Val: cp(val), TTL: ttl}
}

func (s *Store) del(key []byte) {
	i, ok := s.find(key)
	if !ok {
		return
	}
	s.Ents = append(s.Ents[:i:i], s.Ents[i+1:]...)
}

// RawPut writes an entry directly (used by harnesses to build pre-states).
func (s *Store) RawPut(key, val []byte) { s.put(key, val, 0); s.changed() }

// RawGet reads an entry directly (no fault, no yield).
func (s *Store) RawGet(key []byte) ([]byte, bool) {
	i, ok := s.find(key)
	if !ok {
		return nil, false
	}
	return s.Ents[i].Val, true
}

func (s *Store) clone() []Ent {
	out := make([]Ent, len(s.Ents))
	copy(out, s.Ents)
	return out
}

// ---- storage.KvStorage ----

func (s *Store) GetTimestampOracle(ctx context.Context) (uint64, error) {
	s.yield("tso")
	defer s.yield("tso-done")
	if s.TSOFault != nil && s.TSOFault() {
		return 0, ErrInjected
	}
	if s.ClockFn != nil {
		return s.ClockFn(), nil
	}
	if s.Snapshots {
		return s.Clock, nil
	}
	s.Clock++
	return s.Clock, nil
}

func (s *Store) GetPartitions(ctx context.Context, start, end []byte) ([]storage.Partition, error) {
	if s.Partitions != nil {
		return s.Partitions(start, end), nil
	}
	return []storage.Partition{{Start: start, End: end}}, nil
}

func (s *Store) Get(ctx context.Context, key []byte) ([]byte, error) {
	s.yield("get")
	defer s.yield("get-done")
	if s.GetFault != nil {
		n := s.NGets
		s.NGets++
		if s.GetFault(key, n) {
			return nil, ErrInjected // a transient engine fault on a point read
		}
	}
	i, ok := s.find(key)
	if !ok {
		return nil, storage.ErrKeyNotFound
	}
	return cp(s.Ents[i].Val), nil
}

type iter struct {
	ents  []Ent
	pos   int
	s     *Store
	start []byte
	n     int // steps taken so far
}

func (it *iter) Key() []byte { return it.ents[it.pos].Key }
func (it *iter) Val() []byte { return it.ents[it.pos].Val }
func (it *iter) Next(ctx context.Context) error {
	if it.s != nil && it.s.IterFault != nil {
		n := it.n
		it.n++
		if it.s.IterFault(it.start, n) {
			return ErrInjected // a transient engine fault in the middle of a scan
		}
	}
	it.pos++
	if it.pos >= len(it.ents) {
		it.pos = len(it.ents)
		return io.EOF
	}
	return nil
}
func (it *iter) Close() error { return nil }

// Iter: ascending over [start,end) if start < end, else descending over (end,start]
// (start inclusive, end exclusive in both directions), from a snapshot taken now.
func (s *Store) Iter(ctx context.Context, start []byte, end []byte, timestamp uint64, limit uint64) (storage.Iter, error) {
	s.yield("iter")
	defer s.yield("iter-done")
	s.NIters++
	it := &iter{pos: -1, s: s, start: cp(start)}
	ents := s.at(timestamp)
	if bytes.Compare(start, end) <= 0 {
		for i := range ents {
			k := ents[i].Key
			if bytes.Compare(k, start) >= 0 && bytes.Compare(k, end) < 0 {
				it.ents = append(it.ents, Ent{Key: cp(k), Val: cp(ents[i].Val)})
			}
		}
	} else {
		for i := len(ents) - 1; i >= 0; i-- {
			k := ents[i].Key
			if bytes.Compare(k, start) <= 0 {
				if bytes.Compare(k, end) > 0 {
					it.ents = append(it.ents, Ent{Key: cp(k), Val: cp(ents[i].Val)})
				} else if s.LooseReverseFirst && len(it.ents) == 0 {
					// engine yields the greatest key <= start even when it is outside the interval
					it.ents = append(it.ents, Ent{Key: cp(k), Val: cp(ents[i].Val)})
					break
				}
			}
		}
	}
	if limit > 0 && uint64(len(it.ents)) > limit {
		it.ents = it.ents[:limit]
	}
	return it, nil
}

type OpKind int

const (
	OpPutIfNotExist OpKind = iota
	OpCAS
	OpPut
	OpDel
	OpDelCurrent
)

type Op struct {
	Kind OpKind
	Key  []byte
	Val  []byte
	Old  []byte
	TTL  int64
}

type batch struct {
	s   *Store
	ops []Op
}

func (s *Store) BeginBatchWrite() storage.BatchWrite { return &batch{s: s} }

func (b *batch) PutIfNotExist(key []byte, val []byte, ttl int64) {
	b.ops = append(b.ops, Op{Kind: OpPutIfNotExist, Key: cp(key), Val: cp(val), TTL: ttl})
}
func (b *batch) CAS(key []byte, newVal []byte, oldVal []byte, ttl int64) {
	b.ops = append(b.ops, Op{Kind: OpCAS, Key: cp(key), Val: cp(newVal), Old: cp(oldVal), TTL: ttl})
}
func (b *batch) Put(key []byte, val []byte, ttl int64) {
	b.ops = append(b.ops, Op{Kind: OpPut, Key: cp(key), Val: cp(val), TTL: ttl})
}
func (b *batch) Del(key []byte) { b.ops = append(b.ops, Op{Kind: OpDel, Key: cp(key)}) }
func (b *batch) DelCurrent(it storage.Iter) {
	b.ops = append(b.ops, Op{Kind: OpDelCurrent, Key: cp(it.Key()), Old: cp(it.Val())})
}

func (s *Store) fault(kind string) Fault {
	n := s.NWrites
	s.NWrites++
	if s.FaultAt == nil {
		return FaultNone
	}
	return s.FaultAt(kind, n)
}

func (s *Store) conflict(idx int, key, cur []byte) error {
	if s.BareCASError {
		return storage.ErrCASFailed
	}
	return storage.NewErrConflict(idx, key, cur)
}

// apply evaluates ops in order on the state plus earlier operations; all or nothing.
func (s *Store) apply(ops []Op) error {
	saved := s.clone()
	for idx, op := range ops {
		switch op.Kind {
		case OpPutIfNotExist:
			if i, ok := s.find(op.Key); ok {
				cur := s.Ents[i].Val
				s.Ents = saved
				return s.conflict(idx, op.Key, cp(cur))
			}
			s.put(op.Key, op.Val, op.TTL)
		case OpCAS:
			i, ok := s.find(op.Key)
			if !ok {
				s.Ents = saved
				return s.conflict(idx, op.Key, nil)
			}
			if !bytes.Equal(s.Ents[i].Val, op.Old) {
				cur := s.Ents[i].Val
				s.Ents = saved
				return s.conflict(idx, op.Key, cp(cur))
			}
			s.put(op.Key, op.Val, op.TTL)
		case OpPut:
			s.put(op.Key, op.Val, op.TTL)
		case OpDel:
			s.del(op.Key)
		case OpDelCurrent:
			i, ok := s.find(op.Key)
			if !ok || !bytes.Equal(s.Ents[i].Val, op.Old) {
				s.Ents = saved
				return s.conflict(idx, op.Key, nil)
			}
			s.del(op.Key)
		}
	}
	return nil
}

func (b *batch) Commit(ctx context.Context) error {
	s := b.s
	s.yield("commit")
	if s.OnBegin != nil {
		s.OnBegin(b.ops)
	}
	var err error
	switch s.fault("commit") {
	case FaultErr:
		err = ErrInjected
	case FaultUnknownLost:
		err = storage.NewErrUncertainResult(ErrInjected)
	case FaultUnknownApplied:
		if e := s.apply(b.ops); e != nil {
			err = e // a failed condition is a definite answer
		} else {
			err = storage.NewErrUncertainResult(ErrInjected)
		}
	default:
		err = s.apply(b.ops)
	}
	if err == nil {
		s.NApplied++
	}
	s.changed()
	if s.OnCommit != nil {
		s.OnCommit(b.ops, err)
	}
	s.yield("commit-done")
	return err
}

func (s *Store) Del(ctx context.Context, key []byte) error {
	s.yield("del")
	defer s.yield("del-done")
	switch s.fault("del") {
	case FaultErr:
		return ErrInjected
	case FaultUnknownLost:
		return storage.NewErrUncertainResult(ErrInjected)
	case FaultUnknownApplied:
		s.del(key)
		s.changed()
		return storage.NewErrUncertainResult(ErrInjected)
	}
	s.del(key)
	s.changed()
	return nil
}

func (s *Store) DelCurrent(ctx context.Context, it storage.Iter) error {
	s.yield("delcurrent")
	defer s.yield("delcurrent-done")
	key, old := it.Key(), it.Val()
	f := s.fault("delcurrent")
	if f == FaultErr {
		return ErrInjected
	}
	if f == FaultUnknownLost {
		return storage.NewErrUncertainResult(ErrInjected)
	}
	i, ok := s.find(key)
	if !ok || !bytes.Equal(s.Ents[i].Val, old) {
		return s.conflict(0, key, nil)
	}
	s.del(key)
	s.changed()
	if f == FaultUnknownApplied {
		return storage.NewErrUncertainResult(ErrInjected)
	}
	return nil
}

func (s *Store) SupportTTL() bool { return s.TTLSupported }
func (s *Store) Close() error     { return nil }
