package zzmodel

import "bytes"

// The MVCC reference model: per key the list of versions in increasing revision order.

type Ver struct {
	Rev uint64
	Val []byte
	Del bool
}

type Ghost struct {
	Keys [][]byte // distinct raw keys, kept sorted bytewise
	Vers [][]Ver
}

func NewGhost() *Ghost { return &Ghost{} }

func (g *Ghost) idx(key []byte, add bool) int {
	for i, k := range g.Keys {
		c := bytes.Compare(k, key)
		if c == 0 {
			return i
		}
		if c > 0 {
			if !add {
				return -1
			}
			g.Keys = append(g.Keys, nil)
			copy(g.Keys[i+1:], g.Keys[i:])
			g.Keys[i] = cp(key)
			g.Vers = append(g.Vers, nil)
			copy(g.Vers[i+1:], g.Vers[i:])
			g.Vers[i] = nil
			return i
		}
	}
	if !add {
		return -1
	}
	g.Keys = append(g.Keys, cp(key))
	g.Vers = append(g.Vers, nil)
	return len(g.Keys) - 1
}

// Newest returns the newest version of key, if any.
func (g *Ghost) Newest(key []byte) (Ver, bool) {
	i := g.idx(key, false)
	if i < 0 || len(g.Vers[i]) == 0 {
		return Ver{}, false
	}
	return g.Vers[i][len(g.Vers[i])-1], true
}

// Live reports whether key currently exists (newest version is not a deletion).
func (g *Ghost) Live(key []byte) bool {
	v, ok := g.Newest(key)
	return ok && !v.Del
}

func (g *Ghost) Append(key []byte, rev uint64, val []byte, del bool) {
	i := g.idx(key, true)
	g.Vers[i] = append(g.Vers[i], Ver{Rev: rev, Val: cp(val), Del: del})
}

// CanCreate: etcd-style create-if-absent.
func (g *Ghost) CanCreate(key []byte) bool { return !g.Live(key) }

// At returns the newest version of key with revision <= r (r == 0: latest); ok is false when
// there is none or it is a deletion.
func (g *Ghost) At(key []byte, r uint64) (Ver, bool) {
	i := g.idx(key, false)
	if i < 0 {
		return Ver{}, false
	}
	vs := g.Vers[i]
	for j := len(vs) - 1; j >= 0; j-- {
		if r == 0 || vs[j].Rev <= r {
			if vs[j].Del {
				return Ver{}, false
			}
			return vs[j], true
		}
	}
	return Ver{}, false
}

type KV struct {
	Key []byte
	Val []byte
	Rev uint64
}

// List returns the snapshot of [start,end) at r, sorted by key, cut at limit (0 = unlimited).
func (g *Ghost) List(start, end []byte, r uint64, limit int) (kvs []KV, more bool) {
	for i, k := range g.Keys {
		if bytes.Compare(k, start) < 0 || bytes.Compare(k, end) >= 0 {
			continue
		}
		_ = i
		v, ok := g.At(k, r)
		if !ok {
			continue
		}
		if limit > 0 && len(kvs) == limit {
			return kvs, true
		}
		kvs = append(kvs, KV{Key: k, Val: v.Val, Rev: v.Rev})
	}
	return kvs, false
}

func (g *Ghost) Count(start, end []byte, r uint64) int {
	kvs, _ := g.List(start, end, r, 0)
	return len(kvs)
}

// MaxRev is the highest revision in the model (0 if empty).
func (g *Ghost) MaxRev() uint64 {
	var m uint64
	for _, vs := range g.Vers {
		for _, v := range vs {
			if v.Rev > m {
				m = v.Rev
			}
		}
	}
	return m
}

// Clone copies the model.
func (g *Ghost) Clone() *Ghost {
	o := &Ghost{}
	for i, k := range g.Keys {
		o.Keys = append(o.Keys, k)
		o.Vers = append(o.Vers, append([]Ver(nil), g.Vers[i]...))
	}
	return o
}
