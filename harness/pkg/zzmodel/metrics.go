package zzmodel

import (
	"net/http"

	"google.golang.org/grpc"

	"github.com/kubewharf/kubebrain/pkg/metrics"
)

// NoMetrics is a metrics client that does nothing.
type NoMetrics struct{}

func (NoMetrics) GetGrpcServerOption() []grpc.ServerOption                              { return nil }
func (NoMetrics) GetHttpHandlers() map[string]http.Handler                              { return nil }
func (NoMetrics) EmitCounter(name string, value interface{}, tags ...metrics.T) error   { return nil }
func (NoMetrics) EmitGauge(name string, value interface{}, tags ...metrics.T) error     { return nil }
func (NoMetrics) EmitHistogram(name string, value interface{}, tags ...metrics.T) error { return nil }
