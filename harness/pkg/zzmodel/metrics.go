package zzmodel

import (
	"net/http"

	"google.golang.org/grpc"

	"github.com/kubewharf/kubebrain/pkg/metrics"
)

// NoMetrics is a metrics client that does nothing.
type NoMetrics struct{}

func (NoMetrics) GetGrpcServerOption() []grpc.ServerOption                              { return nil }
func (NoMetrics) GetHttpHandlers() map[string]http.Handler                              { return nil }
func (NoMetrics) EmitCounter(name string, value interface{}, tags ...metrics.T) error   { return nil }
func (NoMetrics) EmitGauge(name string, value interface{}, tags ...metrics.T) error     { return nil }
func (NoMetrics) EmitHistogram(name string, value interface{}, tags ...metrics.T) error { return nil }

// YieldMetrics is a metrics client whose every emission is a labelled scheduling point
// ("m:"+metric name): the metric emissions inside the code under test become gate points at which
// native replays can force the recorded schedule, without any hook in the repository.
type YieldMetrics struct {
	Yield func(point string)
}

func (YieldMetrics) GetGrpcServerOption() []grpc.ServerOption { return nil }
func (YieldMetrics) GetHttpHandlers() map[string]http.Handler { return nil }
func (m YieldMetrics) EmitCounter(name string, value interface{}, tags ...metrics.T) error {
	if m.Yield != nil {
		m.Yield("m:" + name)
	}
	return nil
}
func (m YieldMetrics) EmitGauge(name string, value interface{}, tags ...metrics.T) error {
	if m.Yield != nil {
		m.Yield("m:" + name)
	}
	return nil
}
func (m YieldMetrics) EmitHistogram(name string, value interface{}, tags ...metrics.T) error {
	if m.Yield != nil {
		m.Yield("m:" + name)
	}
	return nil
}
