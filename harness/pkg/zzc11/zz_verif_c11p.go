//go:build verif

package zzc11

import (
	"bytes"
	"context"

	"github.com/kubewharf/kubebrain/pkg/storage"
	tikvkv "github.com/kubewharf/kubebrain/pkg/storage/tikv"
	"github.com/kubewharf/kubebrain/pkg/zzverif"
	"github.com/tikv/client-go/v2/testutils"
	"github.com/tikv/client-go/v2/tikv"
)

func newSplitTiKV(splits [][]byte) storage.KvStorage {
	rpcClient, cluster, pdClient, err := testutils.NewMockTiKV("", nil)
	zzverif.Assert(err == nil, "mock tikv starts")
	if !zzverif.Symbolic() {
		testutils.BootstrapWithMultiRegions(cluster, splits...)
	}
	zzverif.SetTiKVRegions(splits)
	st, err := tikv.NewTestTiKVStore(rpcClient, pdClient, nil, nil, 0)
	zzverif.Assert(err == nil, "mock tikv store")
	return tikvkv.NewKvStoreWithStorage([]*tikv.KVStore{st})
}

// VerifC11TiKVPartitions: the TiKV adapter's GetPartitions over a key space split into three
// regions at symbolic keys (the first region starts at "", the last ends at ""): the advertised
// partitions tile the requested interval [start, end) exactly — first start, last end, adjacent
// borders equal, every piece non-empty and inside the interval — whatever regions it overlaps.
func VerifC11TiKVPartitions() {
	b1 := zzverif.Bytes("split1", 1)
	b2 := zzverif.Bytes("split2", 1+zzverif.Choose("split2.len", 2))
	zzverif.Assume(b1[0] != 0) // an empty-looking border would be the cluster's own open end
	zzverif.Assume(zzverif.BytesLess(b1, b2))
	st := newSplitTiKV([][]byte{b1, b2})
	start := zzverif.Bytes("start", 1)
	end := zzverif.Bytes("end", 1+zzverif.Choose("end.len", 2))
	zzverif.Assume(zzverif.BytesLess(start, end))
	ps, err := st.GetPartitions(context.Background(), start, end)
	zzverif.Assert(err == nil, "partitions: no error")
	zzverif.Assert(len(ps) >= 1, "at least one partition")
	zzverif.Assert(bytes.Equal(ps[0].Start, start), "the first partition starts at the requested start")
	zzverif.Assert(bytes.Equal(ps[len(ps)-1].End, end), "the last partition ends at the requested end")
	for i, p := range ps {
		zzverif.Assert(bytes.Compare(p.Start, p.End) < 0, "every partition is a non-empty ascending interval")
		if i > 0 {
			zzverif.Assert(bytes.Equal(ps[i-1].End, p.Start), "adjacent partitions share their border")
		}
	}
	if len(ps) > 1 {
		zzverif.Cover("several-regions")
	}
	if len(ps) == 3 {
		zzverif.Cover("all-three-regions")
	}
	zzverif.Cover("done")
}
