//go:build verif

// Package zzc11: every storage adapter honours the engine contract (property C11); the
// reference is the contract store zzmodel.Store, the subject the real adapter code.
package zzc11

import (
	"context"
	"errors"
	"io"
	"sync/atomic"

	"github.com/kubewharf/kubebrain/pkg/storage"
	badgerkv "github.com/kubewharf/kubebrain/pkg/storage/badger"
	"github.com/kubewharf/kubebrain/pkg/storage/memkv"
	smetrics "github.com/kubewharf/kubebrain/pkg/storage/metrics"
	tikvkv "github.com/kubewharf/kubebrain/pkg/storage/tikv"
	"github.com/kubewharf/kubebrain/pkg/zzmodel"
	"github.com/kubewharf/kubebrain/pkg/zzverif"
	"github.com/tikv/client-go/v2/oracle"
	"github.com/tikv/client-go/v2/testutils"
	"github.com/tikv/client-go/v2/tikv"
)

var ctx = context.Background()

func key(tag string) []byte {
	// keys of 1..2 bytes over a small alphabet so that equal keys, prefixes and neighbours occur
	n := 1 + zzverif.Choose(tag+".len", 2)
	k := zzverif.Bytes(tag, n)
	for i := range k {
		zzverif.Assume(zzverif.And(k[i] >= 'a', k[i] <= 'c'))
	}
	return k
}

func dump(s storage.KvStorage) (keys, vals [][]byte) {
	it, err := s.Iter(ctx, []byte{0}, []byte{0xff, 0xff, 0xff}, 0, 0)
	zzverif.Assert(err == nil, "full iteration starts")
	for {
		if err := it.Next(ctx); err != nil {
			zzverif.Assert(err == io.EOF, "iteration ends with EOF")
			break
		}
		keys = append(keys, append([]byte(nil), it.Key()...))
		vals = append(vals, append([]byte(nil), it.Val()...))
	}
	it.Close()
	return
}

func sameContent(impl, ref storage.KvStorage, what string) {
	ik, iv := dump(impl)
	rk, rv := dump(ref)
	zzverif.Assert(len(ik) == len(rk), what+": same number of entries as the contract")
	for i := range rk {
		zzverif.Assert(zzverif.BytesEq(ik[i], rk[i]), what+": same keys in the same order")
		zzverif.Assert(zzverif.BytesEq(iv[i], rv[i]), what+": same values")
	}
}

func errClass(err error) int {
	switch {
	case err == nil:
		return 0
	case errors.Is(err, storage.ErrCASFailed):
		return 1
	case err == storage.ErrKeyNotFound:
		return 2
	}
	return 3
}

func step(impl, ref storage.KvStorage) {
	// identical initial content
	n := zzverif.Param("entries", 2)
	for i := 0; i < n; i++ {
		k, v := key("init"+string(rune('0'+i))), zzverif.Bytes("initv"+string(rune('0'+i)), 1)
		for _, s := range []storage.KvStorage{impl, ref} {
			b := s.BeginBatchWrite()
			b.Put(k, v, 0)
			zzverif.Assert(b.Commit(ctx) == nil, "unconditional put commits")
		}
	}
	sameContent(impl, ref, "after puts")
	switch zzverif.Choose("op", 5) {
	case 0: // a batch of operations, several conditions, conditions on missing keys and on keys written earlier in the batch
		ib, rb := impl.BeginBatchWrite(), ref.BeginBatchWrite()
		m := 1 + zzverif.Choose("nops", zzverif.Param("ops", 2))
		for j := 0; j < m; j++ {
			tag := "b" + string(rune('0'+j))
			k, v, old := key(tag), zzverif.Bytes(tag+".v", 1), zzverif.Bytes(tag+".old", 1)
			ttl := int64(zzverif.Choose(tag+".ttl", 2)) * 3600 // written with or without a TTL (never reached here)
			switch zzverif.Choose(tag+".kind", 4) {
			case 0:
				ib.PutIfNotExist(k, v, ttl)
				rb.PutIfNotExist(k, v, ttl)
			case 1:
				ib.CAS(k, v, old, ttl)
				rb.CAS(k, v, old, ttl)
			case 2:
				ib.Put(k, v, ttl)
				rb.Put(k, v, ttl)
			default:
				ib.Del(k)
				rb.Del(k)
			}
		}
		ie, re := ib.Commit(ctx), rb.Commit(ctx)
		zzverif.Assert(errClass(ie) == errClass(re), "batch: takes effect exactly when its conditions hold, a failed condition is reported as such")
		if re != nil {
			zzverif.Cover("batch-refused")
		} else {
			zzverif.Cover("batch-applied")
		}
		sameContent(impl, ref, "after batch (all or nothing)")
	case 1:
		k := key("g")
		iv, ie := impl.Get(ctx, k)
		rv, re := ref.Get(ctx, k)
		zzverif.Assert(errClass(ie) == errClass(re), "get: found / not found")
		if re == nil {
			zzverif.Assert(zzverif.BytesEq(iv, rv), "get: value")
			zzverif.Cover("get-hit")
		}
	case 2: // iteration: start inclusive, end exclusive, either direction, optional limit
		s, e := key("s"), key("e")
		limit := uint64(zzverif.Choose("limit", 3))
		ii, err := impl.Iter(ctx, s, e, 0, limit)
		zzverif.Assert(err == nil, "iter starts")
		ri, _ := ref.Iter(ctx, s, e, 0, 0)
		var want [][]byte
		for ri.Next(ctx) == nil {
			want = append(want, ri.Key())
		}
		got := 0
		for {
			if err := ii.Next(ctx); err != nil {
				zzverif.Assert(err == io.EOF, "iteration ends with EOF")
				break
			}
			zzverif.Assert(got < len(want), "iterator yields no key outside the requested interval")
			zzverif.Assert(zzverif.BytesEq(ii.Key(), want[got]), "iterator yields the keys of the interval in the requested direction")
			rv, _ := ref.Get(ctx, want[got])
			zzverif.Assert(zzverif.BytesEq(ii.Val(), rv), "iterator yields the stored value")
			got++
		}
		if limit == 0 || uint64(len(want)) <= limit {
			zzverif.Assert(got == len(want), "iterator yields every key of the interval")
		} else {
			zzverif.Assert(uint64(got) >= limit, "a limited iterator yields at least the first limit keys")
		}
		if len(want) > 1 {
			zzverif.Cover("iter-several")
		}
		if zzverif.BytesLess(e, s) {
			zzverif.Cover("iter-descending")
		}
	case 3:
		k := key("d")
		ie, re := impl.Del(ctx, k), ref.Del(ctx, k)
		zzverif.Assert(errClass(ie) == errClass(re), "del: outcome")
		sameContent(impl, ref, "after del")
	default: // compare-and-delete against the value the iterator saw
		ii, _ := impl.Iter(ctx, []byte{0}, []byte{0xff}, 0, 0)
		ri, _ := ref.Iter(ctx, []byte{0}, []byte{0xff}, 0, 0)
		if ii.Next(ctx) != nil || ri.Next(ctx) != nil {
			return
		}
		if zzverif.Choose("touch", 2) == 1 {
			// the entry changes between the iterator's snapshot and the delete
			v := zzverif.Bytes("touchv", 1)
			// the contract allows delete-if-value-equal or delete-if-version-equal: a rewrite with the
			// identical value may or may not count as a change, so the harness makes a real change
			zzverif.Assume(!zzverif.BytesEq(v, ri.Val()))
			for _, s := range []storage.KvStorage{impl, ref} {
				b := s.BeginBatchWrite()
				b.Put(ri.Key(), v, 0)
				b.Commit(ctx)
			}
			zzverif.Cover("changed-under-iterator")
		}
		ie, re := impl.DelCurrent(ctx, ii), ref.DelCurrent(ctx, ri)
		zzverif.Assert(errClass(ie) == errClass(re), "compare-and-delete takes effect exactly when the entry is unchanged, else reports a failed condition")
		sameContent(impl, ref, "after compare-and-delete")
	}
	zzverif.Cover("done")
}

// VerifC11Memkv: the in-memory adapter against the contract.
func VerifC11Memkv() { step(memkv.NewKvStorage(), zzmodel.NewStore()) }

// VerifC11MemkvMetrics: the metrics wrapper around the in-memory adapter against the contract.
func VerifC11MemkvMetrics() {
	step(smetrics.NewKvStorage(memkv.NewKvStorage(), zzmodel.NoMetrics{}), zzmodel.NewStore())
}

// VerifC11Badger: the Badger adapter against the contract.
func VerifC11Badger() {
	s, err := badgerkv.NewKvStorage(badgerkv.Config{Dir: zzverif.TempDir()})
	zzverif.Assert(err == nil, "badger opens")
	defer s.Close()
	step(s, zzmodel.NewStore())
}

// VerifC11BadgerMetrics: the metrics wrapper around the Badger adapter against the contract.
func VerifC11BadgerMetrics() {
	s, err := badgerkv.NewKvStorage(badgerkv.Config{Dir: zzverif.TempDir()})
	zzverif.Assert(err == nil, "badger opens")
	defer s.Close()
	step(smetrics.NewKvStorage(s, zzmodel.NoMetrics{}), zzmodel.NewStore())
}

// NewMockTiKV builds the TiKV adapter over client-go's mock cluster (natively) / over gosym's
// model of the client (symbolically).
func NewMockTiKV() storage.KvStorage {
	rpcClient, cluster, pdClient, err := testutils.NewMockTiKV("", nil)
	zzverif.Assert(err == nil, "mock tikv starts")
	if !zzverif.Symbolic() {
		// a function variable of the third-party test utilities (their package initialisers are not
		// executed symbolically; the client model needs no bootstrap)
		testutils.BootstrapWithMultiRegions(cluster)
	}
	st, err := tikv.NewTestTiKVStore(rpcClient, pdClient, nil, nil, 0)
	zzverif.Assert(err == nil, "mock tikv store")
	lastTiKV = st
	return tikvkv.NewKvStoreWithStorage([]*tikv.KVStore{st})
}

var lastTiKV *tikv.KVStore

// vFailingOracle fails the n-th timestamp request it sees (native counterpart of
// zzverif.SetTiKVOracleFault).
type vFailingOracle struct {
	oracle.Oracle
	n int32
}

func (o *vFailingOracle) GetTimestamp(ctx context.Context, opt *oracle.Option) (uint64, error) {
	if atomic.LoadInt32(&o.n) > 0 && atomic.AddInt32(&o.n, -1) == 0 {
		return 0, errors.New("pd: timestamp request failed")
	}
	return o.Oracle.GetTimestamp(ctx, opt)
}

// SetOracleFault makes the n-th following timestamp request to the PD oracle of the store made by
// the last NewMockTiKV fail.
func SetOracleFault(n int) {
	if zzverif.Symbolic() {
		zzverif.SetTiKVOracleFault(n)
		return
	}
	lastTiKV.SetOracle(&vFailingOracle{Oracle: lastTiKV.GetOracle(), n: int32(n)})
}

// VerifC11TiKVOracle: the TiKV adapter's timestamp oracle while one request to PD fails: the
// adapter reports the failure (it never makes a timestamp up: the revisions of a new leader and the
// snapshots of scans are taken from it), and the timestamps it does return keep increasing.
func VerifC11TiKVOracle() {
	st := NewMockTiKV()
	t1, err := st.GetTimestampOracle(ctx)
	zzverif.Assert(err == nil, "timestamp: no error")
	at := 1 + zzverif.Choose("failAt", 2)
	SetOracleFault(at)
	var ts []uint64
	failed := false
	for i := 1; i <= 3; i++ {
		t, err := st.GetTimestampOracle(ctx)
		if i == at {
			zzverif.Assert(err != nil, "a failed timestamp request is reported as an error, never answered with a made-up timestamp")
			failed = true
			continue
		}
		zzverif.Assert(err == nil, "timestamp: no error")
		ts = append(ts, t)
	}
	zzverif.Assert(failed, "the fault was injected")
	prev := t1
	for _, t := range ts {
		zzverif.Assert(t > prev, "timestamps keep increasing")
		prev = t
	}
	zzverif.Cover("done")
}

// VerifC11TiKV: the TiKV adapter against the contract.
func VerifC11TiKV() { step(NewMockTiKV(), zzmodel.NewStore()) }
