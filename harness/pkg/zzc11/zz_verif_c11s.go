//go:build verif

package zzc11

import (
	"io"

	"github.com/kubewharf/kubebrain/pkg/storage"
	badgerkv "github.com/kubewharf/kubebrain/pkg/storage/badger"
	"github.com/kubewharf/kubebrain/pkg/storage/memkv"
	"github.com/kubewharf/kubebrain/pkg/zzverif"
)

func scanKey(i int) []byte {
	return []byte{'k', byte('0' + i/1000%10), byte('0' + i/100%10), byte('0' + i/10%10), byte('0' + i%10)}
}

// longScan: an iteration over more keys than the engine's client fetches per request (TiKV: 256
// per scan request), with one batch committed while the iterator is open that rewrites, removes
// and adds keys the iterator has not reached yet. The iterator must still yield the content the
// interval had when it was opened ("from one consistent snapshot") — with an explicit snapshot
// timestamp and with timestamp 0 (latest), in either direction.
func longScan(impl storage.KvStorage) {
	n := zzverif.Param("scan", 260)
	for i := 0; i < n; i += 20 {
		b := impl.BeginBatchWrite()
		for j := i; j < i+20 && j < n; j++ {
			b.Put(scanKey(2*j), []byte{'a'}, 0) // even numbers: odd ones are free for insertion
		}
		zzverif.Assert(b.Commit(ctx) == nil, "unconditional puts commit")
	}
	var ts uint64
	if zzverif.Choose("ts", 2) == 1 {
		var err error
		ts, err = impl.GetTimestampOracle(ctx)
		zzverif.Assert(err == nil, "timestamp oracle answers")
	}
	down := zzverif.Choose("descending", 2) == 1
	start, end := []byte("k"), []byte("l")
	if down {
		start, end = []byte("kz"), []byte("k")
	}
	it, err := impl.Iter(ctx, start, end, ts, 0)
	zzverif.Assert(err == nil, "iter starts")
	pos := func(i int) int { // index of the i-th key the iterator yields
		if down {
			return n - 1 - i
		}
		return i
	}
	got := 0
	read := 1 + zzverif.Choose("readfirst", 2)
	check := func() {
		zzverif.Assert(got < n, "iterator yields no key that was not in its snapshot")
		zzverif.Assert(zzverif.BytesEq(it.Key(), scanKey(2*pos(got))), "iterator yields the keys of its snapshot, in order")
		zzverif.Assert(zzverif.BytesEq(it.Val(), []byte{'a'}), "iterator yields the values of its snapshot")
		got++
	}
	for i := 0; i < read; i++ {
		zzverif.Assert(it.Next(ctx) == nil, "first elements")
		check()
	}
	// one batch on keys the iterator has not reached: far from its position
	far := pos(n - 2)
	v := zzverif.Bytes("newval", 1)
	zzverif.Assume(v[0] != 'a')
	b := impl.BeginBatchWrite()
	switch zzverif.Choose("change", 3) {
	case 0:
		b.Put(scanKey(2*far), v, 0)
	case 1:
		b.Del(scanKey(2 * far))
	default:
		b.Put(scanKey(2*far+1), v, 0)
	}
	zzverif.Assert(b.Commit(ctx) == nil, "the concurrent batch commits")
	zzverif.Cover("changed-under-long-scan")
	for {
		if err := it.Next(ctx); err != nil {
			zzverif.Assert(err == io.EOF, "iteration ends with EOF")
			break
		}
		check()
	}
	it.Close()
	zzverif.Assert(got == n, "iterator yields every key of its snapshot")
	zzverif.Cover("done")
}

// VerifC11ScanTiKV: a scan longer than one scan request of the TiKV client racing a commit.
func VerifC11ScanTiKV() { longScan(NewMockTiKV()) }

// VerifC11ScanMemkv: the same on the in-memory adapter.
func VerifC11ScanMemkv() { longScan(memkv.NewKvStorage()) }

// VerifC11ScanBadger: the same on the Badger adapter.
func VerifC11ScanBadger() {
	s, err := badgerkv.NewKvStorage(badgerkv.Config{Dir: zzverif.TempDir()})
	zzverif.Assert(err == nil, "badger opens")
	defer s.Close()
	longScan(s)
}

// concurrentWriters: two batches conditioned on the same state of one key are committed at the
// same time (every interleaving of their engine calls within the delay bound): two compare-and-
// swaps naming the same old value, or two put-if-absent on the same missing key, never both take
// effect; the loser reports a failed condition and the key holds the winner's value.
// Natively (where the engine's goroutines cannot be steered) the same scenario is repeated on
// fresh keys with more writers.
func concurrentWriters(impl storage.KvStorage) {
	rounds, writers := 1, 2
	if !zzverif.Symbolic() {
		rounds, writers = zzverif.Param("native_rounds", 150), zzverif.Param("native_writers", 8)
	}
	absent := zzverif.Choose("absent", 2) == 1
	v0 := zzverif.Bytes("v0", 1)
	vals := [][]byte{zzverif.Bytes("w0", 1), zzverif.Bytes("w1", 1)}
	zzverif.Assume(vals[0][0] != vals[1][0])
	zzverif.Assume(vals[0][0] != v0[0] && vals[1][0] != v0[0])
	for r := 0; r < rounds; r++ {
		key := []byte{'k', byte('0' + r/100), byte('0' + r/10%10), byte('0' + r%10)}
		if !absent {
			b := impl.BeginBatchWrite()
			b.Put(key, v0, 0)
			zzverif.Assert(b.Commit(ctx) == nil, "setup put")
		}
		errs := make([]error, writers)
		done := make(chan struct{}, writers)
		zzverif.ExploreSchedules(zzverif.Param("preempt", 2))
		for i := 0; i < writers; i++ {
			i := i
			val := vals[i%2]
			if i >= 2 {
				val = []byte{byte('A' + i)}
			}
			zzverif.Go("w"+string(rune('0'+i)), func() {
				b := impl.BeginBatchWrite()
				if absent {
					b.PutIfNotExist(key, val, 0)
				} else {
					b.CAS(key, val, v0, 0)
				}
				errs[i] = b.Commit(ctx)
				done <- struct{}{}
			})
		}
		for i := 0; i < writers; i++ {
			<-done
		}
		zzverif.StopExploring()
		won := -1
		for i, e := range errs {
			if e == nil {
				zzverif.Assert(won < 0, "two writers conditioned on the same state never both succeed")
				won = i
			} else {
				zzverif.Assert(errClass(e) == 1, "the losing writer is told its condition failed")
			}
		}
		zzverif.Assert(won >= 0, "one of the writers succeeds")
		got, err := impl.Get(ctx, key)
		zzverif.Assert(err == nil, "the key is stored")
		if won < 2 {
			zzverif.Assert(zzverif.BytesEq(got, vals[won]), "the key holds the winner's value")
		}
	}
	zzverif.Cover("done")
}

// VerifC11ConcurrentBadger: two conditional batches at the same time on the Badger adapter.
func VerifC11ConcurrentBadger() {
	s, err := badgerkv.NewKvStorage(badgerkv.Config{Dir: zzverif.TempDir()})
	zzverif.Assert(err == nil, "badger opens")
	defer s.Close()
	concurrentWriters(s)
}

// VerifC11ConcurrentTiKV: the same on the TiKV adapter.
func VerifC11ConcurrentTiKV() { concurrentWriters(NewMockTiKV()) }

// VerifC11ConcurrentMemkv: the same on the in-memory adapter.
func VerifC11ConcurrentMemkv() { concurrentWriters(memkv.NewKvStorage()) }
