//go:build verif

package backend

import (
	proto "github.com/kubewharf/kubebrain-client/api/v2rpc"

	"github.com/kubewharf/kubebrain/pkg/zzverif"
)

// VerifC05Ring: the event cache for every size 1..max, filled with k = 0..2*size+1 events of
// strictly increasing symbolic revisions (so that it wraps), queried at a symbolic revision:
// FindEvents returns exactly the cached events with revision >= the query, in order, or the
// right one of the flags empty / high / low.
func VerifC05Ring() {
	l := 1 + zzverif.Choose("size", zzverif.Param("maxsize", 3))
	k := zzverif.Choose("adds", 2*l+2)
	r := NewRing(l)
	var all []*proto.Event
	var prev uint64
	for i := 0; i < k; i++ {
		rev := zzverif.U64("rev" + string(rune('a'+i)))
		zzverif.Assume(rev > prev)
		prev = rev
		e := &proto.Event{Revision: rev}
		all = append(all, e)
		r.Add(e)
	}
	cached := all
	if len(cached) > l {
		cached = cached[len(cached)-l:]
		zzverif.Cover("wrapped")
	}
	q := zzverif.U64("query")
	ret := r.FindEvents(q)
	if k == 0 {
		zzverif.Assert(ret.empty, "empty cache is reported empty")
		zzverif.Cover("empty")
		return
	}
	zzverif.Assert(!ret.empty, "non-empty cache is not reported empty")
	zzverif.Assert(ret.newest == cached[len(cached)-1] && ret.oldest == cached[0], "newest and oldest cached events")
	switch {
	case q > cached[len(cached)-1].Revision:
		zzverif.Assert(ret.high && !ret.low && len(ret.events) == 0, "query above the newest event: high")
		zzverif.Cover("high")
	case q < cached[0].Revision:
		zzverif.Assert(ret.low && !ret.high && len(ret.events) == 0, "query below the oldest event: low")
		zzverif.Cover("low")
	default:
		zzverif.Assert(!ret.low && !ret.high, "query inside the window")
		var want []*proto.Event
		for _, e := range cached {
			if e.Revision >= q {
				want = append(want, e)
			}
		}
		zzverif.Assert(len(ret.events) == len(want), "exactly the cached events at or after the query revision")
		for i := range want {
			zzverif.Assert(ret.events[i] == want[i], "cached events in order across the wrap-around")
		}
		zzverif.Cover("found")
	}
}
