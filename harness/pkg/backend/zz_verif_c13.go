//go:build verif

package backend

import (
	"bytes"
	"time"

	proto "github.com/kubewharf/kubebrain-client/api/v2rpc"

	"github.com/kubewharf/kubebrain/pkg/storage"
	"github.com/kubewharf/kubebrain/pkg/zzverif"
)

// vPartitioner makes the contract store advertise 1..k partitions of the scanned interval whose
// borders are well-formed internal keys: Encode(name, rev) with rev symbolic (0 = index record).
type vPartitioner struct {
	w       *vWorld
	borders [][]byte
	order   int
}

func (p *vPartitioner) partitions(start, end []byte) []storage.Partition {
	// keep the borders that fall strictly inside the interval, in ascending order
	var bs [][]byte
	for _, b := range p.borders {
		if bytes.Compare(b, start) > 0 && bytes.Compare(b, end) < 0 {
			if len(bs) == 0 || bytes.Compare(bs[len(bs)-1], b) < 0 {
				bs = append(bs, b)
			}
		}
	}
	var ps []storage.Partition
	cur := start
	for _, b := range bs {
		ps = append(ps, storage.Partition{Start: cur, End: b})
		cur = b
	}
	ps = append(ps, storage.Partition{Start: cur, End: end})
	// the engine may report the pieces in any order
	if len(ps) > 1 && p.order == 1 {
		ps[0], ps[len(ps)-1] = ps[len(ps)-1], ps[0]
	}
	if len(ps) > 2 && p.order == 2 {
		ps[0], ps[1] = ps[1], ps[0]
	}
	if len(ps) > 1 {
		zzverif.Cover("partitioned")
	}
	if len(ps) > 2 {
		zzverif.Cover("three-pieces")
	}
	return ps
}

func (w *vWorld) setPartitions() *vPartitioner {
	p := &vPartitioner{w: w}
	nb := zzverif.Param("borders", 2)
	var prev []byte
	for i := 0; i < nb; i++ {
		tag := "border" + string(rune('0'+i))
		name := vNames[zzverif.Choose(tag+".name", w.nkeys)]
		rev := zzverif.U64(tag + ".rev")
		b := w.b.coder.EncodeObjectKey(name, rev)
		if prev != nil {
			zzverif.Assume(zzverif.BytesLess(prev, b))
		}
		prev = b
		p.borders = append(p.borders, b)
		if rev == 0 {
			zzverif.Cover("border-on-index-record")
		} else {
			zzverif.Cover("border-inside-versions")
		}
	}
	p.order = zzverif.Choose("order", 3)
	w.s.Partitions = p.partitions
	return p
}

// iterFault arms one transient engine fault: step number `step` of an iterator that scans piece
// number `piece` of the partitioned interval fails, once. A piece is identified by where the
// iterator starts relative to the (adjusted) borders, so the choice does not depend on how the
// workers' scans interleave.
func (w *vWorld) iterFault(p *vPartitioner, maxStep int) {
	piece := zzverif.Choose("iterFaultPiece", len(p.borders)+2) - 1 // -1: no fault
	step := zzverif.Choose("iterFaultStep", maxStep)
	fired := false
	w.s.IterFault = func(start []byte, n int) bool {
		if fired || piece < 0 || n != step {
			return false
		}
		idx := 0
		for _, b := range p.borders {
			name, _, err := w.b.coder.Decode(b)
			if err == nil && bytes.Compare(w.b.coder.EncodeObjectKey(name, 0), start) <= 0 {
				idx++
			}
		}
		if idx != piece {
			return false
		}
		fired = true
		zzverif.Cover("iterator-fault")
		return true
	}
}

func (w *vWorld) checkStream(start, end []byte, r uint64) {
	ch, err := w.b.ListByStream(vCtx(), w.b.coder.EncodeObjectKey(start, 0), w.b.coder.EncodeObjectKey(end, 0), r)
	zzverif.Assert(err == nil, "stream starts")
	want, _ := w.g.List(start, end, r, 0)
	n, nterm := 0, 0
	seen := make([]bool, len(want))
	for resp := range ch {
		rr := resp.RangeResponse
		zzverif.Assert(rr != nil && rr.Header != nil, "every streamed message has a header")
		rev := r
		if rev == 0 {
			rev = w.dealt
		}
		zzverif.Assert(rr.Header.Revision == rev, "every streamed batch names the revision it was read at")
		if !rr.More {
			nterm++
			zzverif.Assert(resp.Err == "", "stream terminator carries no error")
			continue
		}
		zzverif.Assert(nterm == 0, "no batch after the terminator")
		for _, kv := range rr.Kvs {
			n++
			found := false
			for i := range want {
				if !seen[i] && bytes.Equal(kv.Key, want[i].Key) {
					seen[i] = true
					found = true
					zzverif.Assert(zzverif.BytesEq(kv.Value, want[i].Val), "stream: value")
					zzverif.Assert(kv.Revision == want[i].Rev, "stream: modification revision")
				}
			}
			zzverif.Assert(found, "stream: every key at most once and only qualifying keys")
		}
	}
	zzverif.Assert(nterm == 1, "stream ends with exactly one terminator")
	zzverif.Assert(n == len(want), "stream: every qualifying key exactly once")
}

// checkStreamPerPartition asks the node for its partitions of [start, end) and streams every
// advertised piece separately, as a partition-aware client does: the concatenation holds every
// qualifying key exactly once, with the version an unpartitioned read at r returns.
func (w *vWorld) checkStreamPerPartition(start, end []byte, r uint64) {
	pr, err := w.b.GetPartitions(vCtx(), &proto.ListPartitionRequest{Key: start, End: end})
	zzverif.Assert(err == nil, "partitions: no error")
	zzverif.Assert(len(pr.PartitionKeys) >= 2 && int64(len(pr.PartitionKeys)) == pr.PartitionNum+1, "partitions: n pieces have n+1 borders")
	if len(pr.PartitionKeys) > 2 {
		zzverif.Cover("several-advertised-pieces")
	}
	want, _ := w.g.List(start, end, r, 0)
	seen := make([]bool, len(want))
	n := 0
	for i := 0; i+1 < len(pr.PartitionKeys); i++ {
		ch, err := w.b.ListByStream(vCtx(), pr.PartitionKeys[i], pr.PartitionKeys[i+1], r)
		zzverif.Assert(err == nil, "stream of one advertised piece starts")
		nterm := 0
		for resp := range ch {
			rr := resp.RangeResponse
			zzverif.Assert(rr != nil && rr.Header != nil, "every streamed message has a header")
			if !rr.More {
				nterm++
				zzverif.Assert(resp.Err == "", "stream terminator carries no error")
				continue
			}
			for _, kv := range rr.Kvs {
				n++
				found := false
				for j := range want {
					if !seen[j] && bytes.Equal(kv.Key, want[j].Key) {
						seen[j], found = true, true
						zzverif.Assert(zzverif.BytesEq(kv.Value, want[j].Val), "per-partition stream: value")
						zzverif.Assert(kv.Revision == want[j].Rev, "per-partition stream: the version an unpartitioned read returns")
					}
				}
				zzverif.Assert(found, "per-partition streams: every key at most once over all pieces, and only qualifying keys")
			}
		}
		zzverif.Assert(nterm == 1, "each piece's stream ends with exactly one terminator")
	}
	zzverif.Assert(n == len(want), "per-partition streams: every qualifying key exactly once")
}

// VerifC13Partitions: unlimited range read, count and streamed range do not depend on how the
// engine partitions the key space.
func VerifC13Partitions() {
	w := vNewWorld(zzverif.Param("keys", 2))
	w.history()
	p := w.setPartitions()
	if nf := zzverif.Param("iterfaults", 0); nf > 0 {
		// one transient engine fault at any of the first nf steps of the scan of any piece: the
		// worker retries its partition, and the result must be what it is without the fault
		w.iterFault(p, nf)
	}
	// the scanned interval: the whole prefix, or one that starts (or ends) exactly on a stored key
	rg := vRanges[[]int{0, 1, 4}[zzverif.Choose("range", zzverif.Param("ranges", 3))]]
	switch zzverif.Choose("read", 4) {
	case 0:
		r := w.readRev("R")
		w.checkList(rg[0], rg[1], r, 0)
	case 1:
		w.checkCount(rg[0], rg[1])
	case 2:
		r := w.readRev("R")
		w.checkStream(rg[0], rg[1], r)
	default:
		r := w.readRev("R")
		w.checkStreamPerPartition(rg[0], rg[1], r)
	}
	zzverif.Cover("done")
}

// VerifC13Retry: three keys (the middle one updated once), any single border, pieces in any order,
// and one transient engine fault at any iterator step of the read: the worker retries its
// partition, and the unlimited range read, the count and the streamed range are what they are
// without the fault — every qualifying key exactly once.
func VerifC13Retry() {
	w := vNewWorld(3)
	w.create("k0", vNames[0])
	w.create("k1", vNames[1])
	w.create("k2", vNames[2])
	w.vWriteSeqOn(vNames[1], 1)
	zzverif.WaitIdle()
	p := w.setPartitions()
	w.iterFault(p, zzverif.Param("iterfaults", 8))
	rg := vRanges[0]
	switch zzverif.Choose("read", 3) {
	case 0:
		w.checkList(rg[0], rg[1], 0, 0)
	case 1:
		w.checkCount(rg[0], rg[1])
	default:
		w.checkStream(rg[0], rg[1], 0)
	}
	zzverif.Cover("done")
}

var _ = proto.Event_PUT

// VerifC13ManyPartitions: an engine that reports many pieces (more than any fixed worker pool a
// scan might use): three keys with several versions, `pieces`-1 concrete borders spread over the
// index records and the versions of all keys (reported in reverse order), and an unlimited range
// read, count, whole-range stream or per-partition streams at a symbolic readable revision.
func VerifC13ManyPartitions() {
	w := vNewWorld(3)
	w.create("k0", vNames[0])
	w.create("k1", vNames[1])
	w.create("k2", vNames[2])
	w.vWriteSeqOn(vNames[1], 1)
	w.vWriteSeqOn(vNames[2], 1)
	zzverif.WaitIdle()
	n := zzverif.Param("pieces", 40)
	p := &vPartitioner{w: w, order: 1}
	for i := 0; i < n-1; i++ {
		// borders inside every key's versions, ascending: (name0, 1..), (name1, ..), (name2, ..)
		p.borders = append(p.borders, w.b.coder.EncodeObjectKey(vNames[(3*i)/(n-1)], uint64(1+i%((n+1)/3))))
	}
	sorted := append([][]byte(nil), p.borders...)
	for i := 1; i < len(sorted); i++ {
		for j := i; j > 0 && bytes.Compare(sorted[j-1], sorted[j]) > 0; j-- {
			sorted[j-1], sorted[j] = sorted[j], sorted[j-1]
		}
	}
	p.borders = sorted
	w.s.Partitions = p.partitions
	rg := vRanges[0]
	r := w.readRev("R")
	switch zzverif.Choose("read", 4) {
	case 0:
		w.checkList(rg[0], rg[1], r, 0)
	case 1:
		w.checkCount(rg[0], rg[1])
	case 2:
		w.checkStream(rg[0], rg[1], r)
	default:
		w.checkStreamPerPartition(rg[0], rg[1], r)
	}
	zzverif.Cover("done")
}

// VerifC13StreamRetry: a streamed range over more keys than one streamed batch holds (300), with
// one transient engine fault at an iterator step after the first batch has already been sent to
// the client: the worker retries its partition — the client must still see every qualifying key
// exactly once, or the stream's terminator must carry the error.
func VerifC13StreamRetry() {
	w := vNewWorld(1)
	n := zzverif.Param("streamkeys", 304)
	rev := w.base
	var names [][]byte
	for i := 0; i < n; i++ {
		name := []byte{'/', 'r', '/', 's', byte('0' + i/100), byte('0' + i/10%10), byte('0' + i%10)}
		names = append(names, name)
		if i == 299 {
			// the 300th key (the last one of the first streamed batch) is a proper prefix of its successors
			for _, suffix := range []string{"-0", ".old", "/x"} {
				names = append(names, append(append([]byte(nil), name...), suffix...))
			}
		}
	}
	for _, name := range names {
		w.s.RawPut(w.b.coder.EncodeRevisionKey(name), uint64ToBytes(rev))
		w.s.RawPut(w.b.coder.EncodeObjectKey(name, rev), []byte("v"))
	}
	at := 2*300 + 2*zzverif.Choose("faultAfter", 3) // two records per key: after 300, 301, 302 keys
	fired := false
	w.s.IterFault = func(start []byte, step int) bool {
		if !fired && step == at {
			fired = true
			zzverif.Cover("fault-after-first-batch")
			return true
		}
		return false
	}
	ch, err := w.b.ListByStream(vCtx(), w.b.coder.EncodeObjectKey([]byte("/r/"), 0), w.b.coder.EncodeObjectKey([]byte("/r0"), 0), rev)
	zzverif.Assert(err == nil, "stream starts")
	seen := map[string]int{}
	nterm, errText := 0, ""
	for resp := range ch {
		rr := resp.RangeResponse
		zzverif.Assert(rr != nil, "every streamed message has a range response")
		if !rr.More {
			nterm++
			errText = resp.Err
			continue
		}
		for _, kv := range rr.Kvs {
			seen[string(kv.Key)]++
		}
	}
	zzverif.Assert(nterm == 1, "the stream ends with exactly one terminator")
	if errText == "" {
		for _, name := range names {
			zzverif.Assert(seen[string(name)] == 1, "a stream that ends without error holds every qualifying key exactly once")
		}
		zzverif.Assert(len(seen) == len(names), "a stream holds only keys of the interval")
		zzverif.Cover("completed")
	} else {
		zzverif.Cover("failed-with-error")
	}
	zzverif.Cover("done")
}

// VerifC13Order: the workers of a partitioned scan finish in any order: three keys in three
// pieces, an unlimited range read (or count) whose partition workers are interleaved at the
// engine's operations within the delay bound — a later piece's worker may finish before an earlier
// one's. The result is the unpartitioned result, in key order. Natively (where the workers'
// goroutines cannot be steered) the read is repeated.
func VerifC13Order() {
	w := vNewWorld(3)
	w.create("k0", vNames[0])
	w.create("k1", vNames[1])
	w.create("k2", vNames[2])
	zzverif.WaitIdle()
	p := &vPartitioner{w: w}
	p.borders = [][]byte{w.b.coder.EncodeObjectKey(vNames[2], 0), w.b.coder.EncodeObjectKey(vNames[1], 0)} // "/r/a-b" < "/r/a/b"
	w.s.Partitions = p.partitions
	rg := vRanges[0]
	rounds := 1
	if !zzverif.Symbolic() {
		rounds = zzverif.Param("native_rounds", 60)
	}
	what := zzverif.Choose("read", 2)
	for i := 0; i < rounds; i++ {
		done := make(chan struct{}, 1)
		w.s.Yield = zzverif.YieldAt
		zzverif.ExploreSchedules(zzverif.Param("preempt", 1))
		zzverif.Go("reader", func() {
			if what == 0 {
				w.checkList(rg[0], rg[1], 0, 0)
			} else {
				w.checkCount(rg[0], rg[1])
			}
			done <- struct{}{}
		})
		<-done
		zzverif.StopExploring()
		w.s.Yield = nil
	}
	zzverif.Cover("done")
}

// VerifC13PieceFails: three keys in three pieces, and the engine cannot read one of the pieces at
// all (every step of every iterator on it fails, through all of the scan's retries) while the
// other pieces are healthy — and, natively, slow, so that they finish after the failed one: an
// unlimited range read and a count fail, and a streamed range ends with one terminator that
// carries the error. None of them answers with part of the data as if it were all of it.
func VerifC13PieceFails() {
	w := vNewWorld(3)
	w.create("k0", vNames[0])
	w.create("k1", vNames[1])
	w.create("k2", vNames[2])
	zzverif.WaitIdle()
	p := &vPartitioner{w: w}
	p.borders = [][]byte{w.b.coder.EncodeObjectKey(vNames[2], 0), w.b.coder.EncodeObjectKey(vNames[1], 0)} // "/r/a-b" < "/r/a/b"
	w.s.Partitions = p.partitions
	rg := vRanges[0]
	starts := [][]byte{w.b.coder.EncodeObjectKey(rg[0], 0), p.borders[0], p.borders[1]}
	bad := starts[zzverif.Choose("failingPiece", 3)]
	w.s.IterFault = func(start []byte, step int) bool {
		if bytes.Equal(start, bad) {
			zzverif.Cover("piece-unreadable")
			return true
		}
		if step == 0 && !zzverif.Symbolic() {
			time.Sleep(time.Duration(zzverif.Param("native_slow_ms", 6000)) * time.Millisecond)
		}
		return false
	}
	switch zzverif.Choose("read", 3) {
	case 0:
		_, err := w.b.List(vCtx(), &proto.RangeRequest{Key: rg[0], End: rg[1]})
		zzverif.Assert(err != nil, "a range read one of whose pieces cannot be read fails")
	case 1:
		_, err := w.b.Count(vCtx(), &proto.CountRequest{Key: rg[0], End: rg[1]})
		zzverif.Assert(err != nil, "a count one of whose pieces cannot be read fails")
	default:
		ch, err := w.b.ListByStream(vCtx(), starts[0], w.b.coder.EncodeObjectKey(rg[1], 0), 0)
		zzverif.Assert(err == nil, "stream starts")
		_, nterm, errText, _, _ := vDrain(ch)
		zzverif.Assert(nterm == 1, "stream ends with exactly one terminator")
		zzverif.Assert(errText != "", "a stream one of whose pieces cannot be read ends with the error")
	}
	zzverif.Cover("done")
}
