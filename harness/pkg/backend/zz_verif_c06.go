//go:build verif

package backend

import (
	"bytes"

	proto "github.com/kubewharf/kubebrain-client/api/v2rpc"

	"github.com/kubewharf/kubebrain/pkg/backend/tso"
	"github.com/kubewharf/kubebrain/pkg/zzverif"
)

type vSnapEntry struct {
	present bool
	val     []byte
	rev     uint64
}

func vNameIndex(key []byte) int {
	for i, n := range vNames {
		if bytes.Equal(n, key) {
			return i
		}
	}
	zzverif.Fail("event or kv for a key outside the key universe")
	return -1
}

// VerifC06ListWatch: a range read at R, then a watch from R+1; applying the delivered events to
// the range result gives exactly the range result at a later revision — with successful writes,
// failed writes and a compaction in between.
func VerifC06ListWatch() {
	w := vNewWorld(zzverif.Param("keys", 2))
	w.history()
	rg := vRanges[0]
	l, err := w.b.List(vCtx(), &proto.RangeRequest{Key: rg[0], End: rg[1]})
	zzverif.Assert(err == nil, "list: no error")
	r := l.Header.Revision
	zzverif.Assert(r == w.dealt, "list at latest is served at the committed revision")
	snap := make([]vSnapEntry, len(vNames))
	for _, kv := range l.Kvs {
		snap[vNameIndex(kv.Key)] = vSnapEntry{true, kv.Value, kv.Revision}
	}
	if zzverif.Param("newleader", 0) == 1 && zzverif.Choose("newLeader", 2) == 1 {
		// one more write lands on the old leader, then the client's watch goes to a node that has
		// just taken over (empty event cache): the watch is refused (the client lists again) or it
		// delivers that write too
		w.step()
		w.newLeader()
		ch, err := w.b.Watch(vCtx(), "/r/", r+1)
		if err != nil {
			zzverif.Cover("new-leader-refuses-watch")
			return
		}
		w.step()
		zzverif.WaitIdle()
		evs, closed := vDrainEvents(ch)
		zzverif.Assert(!closed, "watch stays open")
		w.checkEvents(evs, 0, r+1, "/r/")
		zzverif.Cover("new-leader-serves-watch")
		return
	}
	ch, err := w.b.Watch(vCtx(), "/r/", r+1)
	zzverif.Assert(err == nil, "watch from the list revision + 1 is accepted")
	n := zzverif.Param("later", 2)
	for i := 0; i < n; i++ {
		w.step()
		if i == 0 && zzverif.Param("compact", 1) == 1 && zzverif.Choose("compact", 2) == 1 {
			c := zzverif.U64("c")
			zzverif.Assume(c <= w.dealt)
			w.compact(c)
			zzverif.Cover("compaction-between")
		}
	}
	zzverif.WaitIdle()
	evs, closed := vDrainEvents(ch)
	zzverif.Assert(!closed, "watch stays open")
	// any later revision R' (R <= R' <= latest): the events up to R' applied to the range result at
	// R give the range result served at R' (asked with an explicit revision, or 0 for the latest)
	rp := zzverif.U64("Rprime")
	zzverif.Assume(zzverif.And(rp >= r, rp <= w.dealt))
	last := r
	for _, e := range evs {
		zzverif.Assert(e.Revision > last, "events arrive in strictly increasing revision order, all after R")
		last = e.Revision
		if e.Revision > rp {
			zzverif.Cover("intermediate-revision")
			continue
		}
		i := vNameIndex(e.Kv.Key)
		switch e.Type {
		case proto.Event_DELETE:
			zzverif.Assert(snap[i].present, "a delete event refers to a key present in the reconstruction")
			zzverif.Assert(snap[i].rev == e.Kv.Revision, "a delete event names the previous modification revision")
			snap[i] = vSnapEntry{}
			zzverif.Cover("delete-applied")
		default:
			snap[i] = vSnapEntry{true, e.Kv.Value, e.Revision}
			zzverif.Cover("put-applied")
		}
	}
	ask := rp
	if rp == w.dealt && zzverif.Choose("askLatest", 2) == 1 {
		ask = 0
	}
	l2, err := w.b.List(vCtx(), &proto.RangeRequest{Key: rg[0], End: rg[1], Revision: ask})
	if err != nil {
		zzverif.Assert(ask != 0 && ask < w.floor, "the later list is refused only below the compaction floor")
		zzverif.Cover("later-list-compacted")
		return
	}
	zzverif.Assert(l2.Header.Revision == w.dealt, "list header carries the committed revision")
	cnt := 0
	for _, s := range snap {
		if s.present {
			cnt++
		}
	}
	zzverif.Assert(cnt == len(l2.Kvs), "reconstruction has the same keys as the later range read")
	for _, kv := range l2.Kvs {
		s := snap[vNameIndex(kv.Key)]
		zzverif.Assert(s.present, "every key of the later range read is in the reconstruction")
		zzverif.Assert(zzverif.BytesEq(s.val, kv.Value), "reconstructed value")
		zzverif.Assert(s.rev == kv.Revision, "reconstructed modification revision")
	}
	// and the later range read is what the reference model says
	w.checkList(rg[0], rg[1], ask, 0)
	zzverif.Cover("done")
}

// vGateAllTSO makes dealing and committing revisions labelled scheduling points.
type vGateAllTSO struct{ tso.TSO }

func (t *vGateAllTSO) Deal() (uint64, error) {
	zzverif.YieldAt("tso.deal")
	defer zzverif.YieldAt("tso.deal-done")
	return t.TSO.Deal()
}

func (t *vGateAllTSO) Commit(rev uint64) {
	zzverif.YieldAt("tso.commit")
	t.TSO.Commit(rev)
	zzverif.YieldAt("tso.commit-done")
}

// VerifC06Race: the range read races a writer and the sequencer (every interleaving of their
// store operations, revision dealing and committing within the delay bound); then a watch from
// the read's revision + 1 and one more write. Applying the delivered events to the range result
// must still give the later range result.
func VerifC06Race() {
	w := vNewWorldTSO(2, func(t tso.TSO) tso.TSO { return &vGateAllTSO{t} })
	w.vWriteSeq(1)
	zzverif.WaitIdle()
	rg := vRanges[0]
	var l *proto.RangeResponse
	var lerr error
	done := make(chan struct{}, 2)
	w.s.Yield = zzverif.YieldAt
	zzverif.ExploreSchedules(zzverif.Param("preempt", 2))
	zzverif.Foreground("collectStorageWriteEvents")
	zzverif.Go("reader", func() {
		l, lerr = w.b.List(vCtx(), &proto.RangeRequest{Key: rg[0], End: rg[1]})
		done <- struct{}{}
	})
	zzverif.Go("writer", func() {
		val := zzverif.Bytes("racing", 1)
		resp, err := w.b.Create(vCtx(), &proto.CreateRequest{Key: vNames[1], Value: val})
		zzverif.Assert(err == nil && resp.Succeeded, "racing create succeeds")
		w.g.Append(vNames[1], resp.Header.Revision, val, false)
		done <- struct{}{}
	})
	<-done
	<-done
	zzverif.StopExploring()
	w.s.Yield = nil
	w.dealt++
	zzverif.WaitIdle()
	zzverif.Assert(lerr == nil, "list: no error")
	r := l.Header.Revision
	snap := make([]vSnapEntry, len(vNames))
	for _, kv := range l.Kvs {
		zzverif.Assert(kv.Revision <= r, "range result holds nothing newer than its header revision")
		snap[vNameIndex(kv.Key)] = vSnapEntry{true, kv.Value, kv.Revision}
	}
	if len(l.Kvs) == 2 {
		zzverif.Cover("read-saw-racing-write")
	} else {
		zzverif.Cover("read-missed-racing-write")
	}
	ch, err := w.b.Watch(vCtx(), "/r/", r+1)
	zzverif.Assert(err == nil, "watch from the list revision + 1 is accepted")
	w.vWriteSeq(1)
	zzverif.WaitIdle()
	evs, closed := vDrainEvents(ch)
	zzverif.Assert(!closed, "watch stays open")
	for _, e := range evs {
		i := vNameIndex(e.Kv.Key)
		if e.Type == proto.Event_DELETE {
			snap[i] = vSnapEntry{}
		} else {
			snap[i] = vSnapEntry{true, e.Kv.Value, e.Revision}
		}
	}
	l2, err := w.b.List(vCtx(), &proto.RangeRequest{Key: rg[0], End: rg[1]})
	zzverif.Assert(err == nil, "second list: no error")
	cnt := 0
	for _, s := range snap {
		if s.present {
			cnt++
		}
	}
	zzverif.Assert(cnt == len(l2.Kvs), "reconstruction has the same keys as the later range read")
	for _, kv := range l2.Kvs {
		s := snap[vNameIndex(kv.Key)]
		zzverif.Assert(s.present, "every key of the later range read is in the reconstruction")
		zzverif.Assert(zzverif.BytesEq(s.val, kv.Value) && s.rev == kv.Revision, "reconstructed value and revision")
	}
	zzverif.Cover("done")
}
