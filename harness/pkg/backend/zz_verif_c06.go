//go:build verif

package backend

import (
	"bytes"

	proto "github.com/kubewharf/kubebrain-client/api/v2rpc"

	"github.com/kubewharf/kubebrain/pkg/zzverif"
)

type vSnapEntry struct {
	present bool
	val     []byte
	rev     uint64
}

func vNameIndex(key []byte) int {
	for i, n := range vNames {
		if bytes.Equal(n, key) {
			return i
		}
	}
	zzverif.Fail("event or kv for a key outside the key universe")
	return -1
}

// VerifC06ListWatch: a range read at R, then a watch from R+1; applying the delivered events to
// the range result gives exactly the range result at a later revision — with successful writes,
// failed writes and a compaction in between.
func VerifC06ListWatch() {
	w := vNewWorld(zzverif.Param("keys", 2))
	w.history()
	rg := vRanges[0]
	l, err := w.b.List(vCtx(), &proto.RangeRequest{Key: rg[0], End: rg[1]})
	zzverif.Assert(err == nil, "list: no error")
	r := l.Header.Revision
	zzverif.Assert(r == w.dealt, "list at latest is served at the committed revision")
	snap := make([]vSnapEntry, len(vNames))
	for _, kv := range l.Kvs {
		snap[vNameIndex(kv.Key)] = vSnapEntry{true, kv.Value, kv.Revision}
	}
	ch, err := w.b.Watch(vCtx(), "/r/", r+1)
	zzverif.Assert(err == nil, "watch from the list revision + 1 is accepted")
	n := zzverif.Param("later", 2)
	for i := 0; i < n; i++ {
		w.step()
		if i == 0 && zzverif.Param("compact", 1) == 1 && zzverif.Choose("compact", 2) == 1 {
			c := zzverif.U64("c")
			zzverif.Assume(c <= w.dealt)
			w.compact(c)
			zzverif.Cover("compaction-between")
		}
	}
	zzverif.WaitIdle()
	evs, closed := vDrainEvents(ch)
	zzverif.Assert(!closed, "watch stays open")
	last := r
	for _, e := range evs {
		zzverif.Assert(e.Revision > last, "events arrive in strictly increasing revision order, all after R")
		last = e.Revision
		i := vNameIndex(e.Kv.Key)
		switch e.Type {
		case proto.Event_DELETE:
			zzverif.Assert(snap[i].present, "a delete event refers to a key present in the reconstruction")
			zzverif.Assert(snap[i].rev == e.Kv.Revision, "a delete event names the previous modification revision")
			snap[i] = vSnapEntry{}
			zzverif.Cover("delete-applied")
		default:
			snap[i] = vSnapEntry{true, e.Kv.Value, e.Revision}
			zzverif.Cover("put-applied")
		}
	}
	l2, err := w.b.List(vCtx(), &proto.RangeRequest{Key: rg[0], End: rg[1]})
	zzverif.Assert(err == nil, "second list: no error")
	zzverif.Assert(l2.Header.Revision == w.dealt, "second list at the latest revision")
	cnt := 0
	for _, s := range snap {
		if s.present {
			cnt++
		}
	}
	zzverif.Assert(cnt == len(l2.Kvs), "reconstruction has the same keys as the later range read")
	for _, kv := range l2.Kvs {
		s := snap[vNameIndex(kv.Key)]
		zzverif.Assert(s.present, "every key of the later range read is in the reconstruction")
		zzverif.Assert(zzverif.BytesEq(s.val, kv.Value), "reconstructed value")
		zzverif.Assert(s.rev == kv.Revision, "reconstructed modification revision")
	}
	// and the later range read is what the reference model says
	w.checkList(rg[0], rg[1], 0, 0)
	zzverif.Cover("done")
}
