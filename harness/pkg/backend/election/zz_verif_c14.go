//go:build verif

package election

import (
	"context"
	"encoding/json"
	"time"

	"k8s.io/client-go/tools/leaderelection/resourcelock"

	"github.com/kubewharf/kubebrain/pkg/storage"
	badgerkv "github.com/kubewharf/kubebrain/pkg/storage/badger"
	"github.com/kubewharf/kubebrain/pkg/storage/memkv"
	"github.com/kubewharf/kubebrain/pkg/zzc11"
	"github.com/kubewharf/kubebrain/pkg/zzmodel"
	"github.com/kubewharf/kubebrain/pkg/zzverif"
)

// vRawGet reads the stored lock record through the engine.
func vRawGet(s storage.KvStorage, key []byte) ([]byte, bool) {
	v, err := s.Get(context.Background(), key)
	if err != nil {
		zzverif.Assert(err == storage.ErrKeyNotFound, "engine: get answers a value or not-found")
		return nil, false
	}
	return v, true
}

func vNewLock(s storage.KvStorage, id string) *resourceLock { return vNewLockAt(s, id, "/r") }

func vNewLockAt(s storage.KvStorage, id, prefix string) *resourceLock {
	m := NewResourceLockManager(Config{Prefix: prefix, Identity: id, Timeout: time.Second}, s)
	return m.GetResourceLock().(*resourceLock)
}

// VerifC14Lock: 2..3 candidates interleave whole Get / Create / Update calls in any order. An
// acquire-or-renew succeeds only if the stored lock record is exactly what that candidate last
// read (or created); creating succeeds for at most one candidate per absence.
func VerifC14Lock() {
	// the engine under the lock: the contract store (both conflict-reporting styles), or the real
	// adapter code of the in-memory engine, Badger and TiKV (over the models of their libraries)
	var s storage.KvStorage
	var cs *zzmodel.Store
	switch zzverif.Choose("engine", zzverif.Param("engines", 1)) {
	case 0:
		cs = zzmodel.NewStore()
		cs.BareCASError = zzverif.Bool("bareCAS")
		s = cs
	case 1:
		s = memkv.NewKvStorage()
		zzverif.Cover("engine-memkv")
	case 2:
		bd, err := badgerkv.NewKvStorage(badgerkv.Config{Dir: zzverif.TempDir()})
		zzverif.Assert(err == nil, "badger opens")
		defer bd.Close()
		s = bd
		zzverif.Cover("engine-badger")
	default:
		s = zzc11.NewMockTiKV()
		zzverif.Cover("engine-tikv")
	}
	n := zzverif.Param("candidates", 2)
	locks := make([]*resourceLock, n)
	lastRead := make([][]byte, n) // what each candidate last observed (nil: nothing)
	ids := []string{"a", "b", "c"}
	for i := range locks {
		locks[i] = vNewLock(s, ids[i])
	}
	key := getElectionKey("/r")
	// lockfaults=1: one commit of the run is answered "outcome unknown" (applied, or lost)
	faulted, nfault := false, 0
	if cs != nil && zzverif.Param("lockfaults", 0) == 1 {
		cs.FaultAt = func(kind string, n int) zzmodel.Fault {
			if kind != "commit" || nfault > 0 {
				return zzmodel.FaultNone
			}
			switch zzverif.Choose("lockfault", 3) {
			case 1:
				nfault, faulted = 1, true
				zzverif.Cover("commit-unknown-lost")
				return zzmodel.FaultUnknownLost
			case 2:
				nfault, faulted = 1, true
				zzverif.Cover("commit-unknown-applied")
				return zzmodel.FaultUnknownApplied
			}
			return zzmodel.FaultNone
		}
	}
	// stored reports whether the stored record is the one the candidate handed in
	stored := func(rec resourcelock.LeaderElectionRecord) bool {
		raw, ok := vRawGet(s, key)
		var got resourcelock.LeaderElectionRecord
		return ok && json.Unmarshal(raw, &got) == nil && got.HolderIdentity == rec.HolderIdentity &&
			got.LeaderTransitions == rec.LeaderTransitions && got.LeaseDurationSeconds == rec.LeaseDurationSeconds
	}
	steps := zzverif.Param("steps", 4)
	for k := 0; k < steps; k++ {
		tag := "step" + string(rune('0'+k))
		c := zzverif.Choose(tag+".who", n)
		l := locks[c]
		before, present := vRawGet(s, key)
		rec := resourcelock.LeaderElectionRecord{HolderIdentity: ids[c], LeaseDurationSeconds: 8 + k, LeaderTransitions: zzverif.Int(tag + ".transitions")}
		faulted = false
		switch zzverif.Choose(tag+".what", 3) {
		case 0:
			got, err := l.Get()
			if present {
				zzverif.Assert(err == nil, "get of an existing record succeeds")
				lastRead[c] = append([]byte(nil), before...)
				_ = got
			} else {
				zzverif.Assert(err != nil, "get of a missing record reports not found")
			}
		case 1:
			err := l.Create(rec)
			if err == nil {
				zzverif.Assert(stored(rec), "a create reported as success stored the candidate's record")
			}
			if faulted {
				break // outcome unknown: an error is the expected answer, nothing else is asserted
			}
			if err == nil {
				zzverif.Assert(!present, "create succeeds only when no record exists")
				now, _ := vRawGet(s, key)
				lastRead[c] = append([]byte(nil), now...)
				zzverif.Cover("created")
			} else {
				zzverif.Assert(present, "create fails only when a record exists")
				after, _ := vRawGet(s, key)
				zzverif.Assert(zzverif.BytesEq(after, before), "a failed create leaves the record unchanged")
				zzverif.Cover("create-refused")
			}
		default:
			err := l.Update(rec)
			after, still := vRawGet(s, key)
			if err == nil {
				zzverif.Assert(stored(rec), "an acquire-or-renew reported as success stored the candidate's record")
			}
			if faulted {
				break
			}
			if err == nil {
				zzverif.Assert(present && lastRead[c] != nil, "update succeeds only on a record the candidate has observed")
				zzverif.Assert(zzverif.BytesEq(before, lastRead[c]), "update succeeds only if the stored record is exactly what the candidate last read")
				zzverif.Cover("updated")
				// the candidate now knows what it wrote only after reading it back: the implementation does not
				// refresh its compare operand on Update, so its next Update needs a Get first
				_ = after
			} else {
				zzverif.Assert(still == present && (!present || zzverif.BytesEq(after, before)), "a failed update leaves the record unchanged (an accepted record is never silently overwritten)")
				zzverif.Cover("update-refused")
			}
		}
	}
	zzverif.Cover("done")
}

// VerifC14Concurrent: two candidates act at the same time, interleaved inside their calls at the
// engine's operations (<= 2 scheduling delays), on each engine: both find no record and both
// Create — at most one succeeds; or both have read the same record and both Update — at most one
// succeeds, and the stored record is the winner's.
func VerifC14Concurrent() {
	var s storage.KvStorage
	engine := zzverif.Choose("engine", 4)
	switch engine {
	case 0:
		cs := zzmodel.NewStore()
		cs.BareCASError = zzverif.Bool("bareCAS")
		cs.Yield = zzverif.YieldAt
		s = cs
	case 1:
		s = memkv.NewKvStorage()
	case 2:
		bd, err := badgerkv.NewKvStorage(badgerkv.Config{Dir: zzverif.TempDir()})
		zzverif.Assert(err == nil, "badger opens")
		defer bd.Close()
		s = bd
	default:
		s = zzc11.NewMockTiKV()
	}
	// Natively the real engines' goroutines cannot be steered: the same scenario is repeated on
	// fresh lock records with more candidates.
	rounds, n := 1, 2
	if !zzverif.Symbolic() && engine != 0 {
		rounds, n = zzverif.Param("native_rounds", 150), zzverif.Param("native_candidates", 6)
	}
	update := zzverif.Choose("bothUpdate", 2) == 1
	for round := 0; round < rounds; round++ {
		prefix := "/r"
		if round > 0 {
			prefix = "/r" + string([]byte{byte('0' + round/100), byte('0' + round/10%10), byte('0' + round%10)})
		}
		ids := make([]string, n)
		locks := make([]*resourceLock, n)
		for i := range locks {
			ids[i] = string(rune('a' + i))
			locks[i] = vNewLockAt(s, ids[i], prefix)
		}
		if update {
			// a record all candidates have read (the lease of another one ran out)
			zzverif.Assert(vNewLockAt(s, "z", prefix).Create(resourcelock.LeaderElectionRecord{HolderIdentity: "z", LeaseDurationSeconds: 8}) == nil, "setup: record exists")
			for _, l := range locks {
				_, err := l.Get()
				zzverif.Assert(err == nil, "setup: both candidates read the record")
				zzverif.Assume(l.tso != 0) // an engine clock never reads 0 (Update takes 0 for "not initialised")
			}
		}
		errs := make([]error, n)
		done := make(chan struct{}, n)
		zzverif.ExploreSchedules(zzverif.Param("preempt", 2))
		for i := range locks {
			i := i
			zzverif.Go("cand"+ids[i], func() {
				rec := resourcelock.LeaderElectionRecord{HolderIdentity: ids[i], LeaseDurationSeconds: 8, LeaderTransitions: 1 + i}
				if update {
					errs[i] = locks[i].Update(rec)
				} else {
					errs[i] = locks[i].Create(rec)
				}
				done <- struct{}{}
			})
		}
		for range locks {
			<-done
		}
		zzverif.StopExploring()
		won := -1
		for i := range locks {
			if errs[i] == nil {
				zzverif.Assert(won < 0, "two candidates acting on the same observed state never both succeed")
				won = i
			}
		}
		zzverif.Assert(won >= 0, "one of the two candidates succeeds")
		got, present := vRawGet(s, getElectionKey(prefix))
		zzverif.Assert(present, "the lock record is stored")
		var rec resourcelock.LeaderElectionRecord
		zzverif.Assert(json.Unmarshal(got, &rec) == nil && rec.HolderIdentity == ids[won], "the stored record is the winner's")
	}
	if update {
		zzverif.Cover("both-update")
	} else {
		zzverif.Cover("both-create")
	}
	zzverif.Cover("done")
}
