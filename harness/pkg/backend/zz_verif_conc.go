//go:build verif

package backend

import (
	"context"
	"sync"

	proto "github.com/kubewharf/kubebrain-client/api/v2rpc"

	"github.com/kubewharf/kubebrain/pkg/backend/tso"
	"github.com/kubewharf/kubebrain/pkg/zzmodel"
	"github.com/kubewharf/kubebrain/pkg/zzverif"
)

// vReq is one client request of a concurrent harness and what came back.
type vReq struct {
	kind  int // 0 create, 1 update, 2 delete
	key   []byte
	val   []byte
	exp   uint64
	begin int
	end   int
	ok    bool
	err   bool
	rev   uint64
	kv    *proto.KeyValue
	ctx   context.Context // the request's context (nil: never cancelled)
}

func (r *vReq) context() context.Context {
	if r.ctx != nil {
		return r.ctx
	}
	return vCtx()
}

func (w *vWorld) newReq(tag string) *vReq {
	r := &vReq{kind: zzverif.Choose(tag+".kind", 3), key: w.key(tag)}
	if r.kind != 2 {
		r.val = zzverif.Bytes(tag+".val", 1)
	}
	if r.kind != 0 {
		r.exp = zzverif.U64(tag + ".exp")
	}
	return r
}

func (w *vWorld) issue(r *vReq) {
	r.begin = zzverif.Stamp()
	switch r.kind {
	case 0:
		resp, err := w.b.Create(r.context(), &proto.CreateRequest{Key: r.key, Value: r.val})
		r.err = err != nil
		if err == nil {
			r.ok, r.rev = resp.Succeeded, resp.Header.Revision
		}
	case 1:
		resp, err := w.b.Update(r.context(), &proto.UpdateRequest{Kv: &proto.KeyValue{Key: r.key, Value: r.val, Revision: r.exp}})
		r.err = err != nil
		if err == nil {
			r.ok, r.rev, r.kv = resp.Succeeded, resp.Header.Revision, resp.Kv
		}
	default:
		resp, err := w.b.Delete(r.context(), &proto.DeleteRequest{Key: r.key, Revision: r.exp})
		r.err = err != nil
		if err == nil {
			r.ok, r.rev, r.kv = resp.Succeeded, resp.Header.Revision, resp.Kv
		}
	}
	r.end = zzverif.Stamp()
	zzverif.Observe("req", r.kind, r.exp, r.ok, r.err, r.rev, r.begin, r.end)
}

// wants reports whether the reference model lets r succeed in state g.
func (r *vReq) wants(g *zzmodel.Ghost) bool {
	newest, have := g.Newest(r.key)
	live := have && !newest.Del
	switch r.kind {
	case 0:
		return !live
	case 1:
		if r.exp == 0 {
			return !live
		}
		return live && newest.Rev == r.exp
	default:
		return live && (r.exp == 0 || newest.Rev == r.exp)
	}
}

func (r *vReq) apply(g *zzmodel.Ghost) {
	if r.kind == 2 {
		g.Append(r.key, r.rev, nil, true)
	} else {
		g.Append(r.key, r.rev, r.val, false)
	}
}

// refusedKvChecked: no other client's successful delete of the same key ran next to r.
func refusedKvChecked(reqs []*vReq, r *vReq) bool {
	for _, o := range reqs {
		if o != r && o.kind == 2 && o.ok && !o.err && string(o.key) == string(r.key) {
			return false
		}
	}
	return true
}

// VerifC01Race: two concurrent clients on shared keys, all interleavings within the preemption
// bound, from every initial key state reachable by a short history.
func VerifC01Race() {
	w := vNewWorldTSO(zzverif.Param("keys", 1), func(t tso.TSO) tso.TSO { return &vYieldTSO{t} })
	if zzverif.Param("scenario", 0) == 1 {
		// fixed two- and three-write key histories: deleted (mark present), two versions, re-created
		w.vScenario(zzverif.Choose("scenario", 3))
	} else {
		w.history()
	}
	g0 := w.g.Clone()
	w.s.Yield = zzverif.YieldAt
	n := zzverif.Param("clients", 2)
	reqs := make([]*vReq, n)
	for i := range reqs {
		reqs[i] = w.newReq("c" + string(rune('0'+i)))
	}
	var wg sync.WaitGroup
	wg.Add(n)
	zzverif.ExploreSchedules(zzverif.Param("preempt", 2))
	for i := range reqs {
		r := reqs[i]
		zzverif.Go("c"+string(rune('0'+i)), func() {
			w.issue(r)
			wg.Done()
		})
	}
	wg.Wait()
	zzverif.StopExploring()
	w.s.Yield = nil
	w.dealt += uint64(n)
	zzverif.WaitIdle()

	// (C02) every attempt got its own revision; real-time order agrees with revision order
	for i := 0; i < n; i++ {
		for j := 0; j < n; j++ {
			if i == j || reqs[i].err || reqs[j].err {
				continue
			}
			if !reqs[i].ok || !reqs[j].ok {
				continue // the header of a refused request may name the revision of the data it returns
			}
			zzverif.Assert(reqs[i].rev != reqs[j].rev, "two attempts never share a revision")
			if reqs[i].end < reqs[j].begin {
				zzverif.Assert(reqs[i].rev < reqs[j].rev, "a request that completed before another began has the smaller revision")
			}
		}
	}
	// (C02) the header revision of a response is never below the revision of the kv it carries —
	// also for a request refused because a concurrent writer won
	for _, r := range reqs {
		if !r.err && r.kv != nil {
			zzverif.Assert(r.rev >= r.kv.Revision, "response header revision >= revision of the returned kv")
			if !r.ok {
				zzverif.Cover("refused-with-kv")
				if r.exp != 0 && r.wants(g0) && refusedKvChecked(reqs, r) {
					// the request named the key's version and lost to a concurrent writer: the kv in the
					// answer is the key's current one — the winner's, never the very version the request
					// named. (Not asserted when the key differed from the expectation to begin with — a
					// concurrent writer may then have produced exactly the named version meanwhile — nor
					// when another client deleted the key: there is no current kv then; what the node
					// answers in that case is the subject of VerifC16RefusedDelete.)
					zzverif.Assert(r.kv.Revision != r.exp, "a condition that failed because a concurrent writer won is answered with the current kv, not with the version the request named")
				}
			}
		}
	}
	// (a)+(b): the successes, in revision order, form a chain under the reference semantics
	g := g0.Clone()
	done := make([]bool, n)
	nsucc := 0
	for {
		best := -1
		for i, r := range reqs {
			if r.ok && !r.err && !done[i] && (best < 0 || r.rev < reqs[best].rev) {
				best = i
			}
		}
		if best < 0 {
			break
		}
		r := reqs[best]
		zzverif.Assert(r.wants(g), "successful writes form a chain: each named the revision written by its predecessor")
		newest, have := g.Newest(r.key)
		if have {
			zzverif.Assert(r.rev > newest.Rev, "modification revisions strictly increase along a key's history")
		}
		r.apply(g)
		done[best] = true
		nsucc++
	}
	if nsucc == 2 {
		zzverif.Cover("both-succeed")
	}
	if nsucc == 1 {
		zzverif.Cover("one-loses")
	}
	// (d): a condition is reported failed only if the key differed from the expectation at some
	// moment while the request was in flight (initial state, or after a concurrent success)
	for i, r := range reqs {
		if r.ok || r.err {
			continue
		}
		legit := !r.wants(g0)
		// every state the key can have been in while the request was in flight: the initial state
		// followed by any sequence of the other clients' successes
		var others []*vReq
		for j, o := range reqs {
			if j != i && o.ok && !o.err {
				others = append(others, o)
				if r.kind == 2 && r.exp == 0 && string(o.key) == string(r.key) {
					// an unguarded delete is executed as "delete the version I read": a concurrent
					// successful write to the key changes it away from that implicit expectation
					legit = true
				}
			}
		}
		var walk func(g *zzmodel.Ghost, used []bool)
		walk = func(g *zzmodel.Ghost, used []bool) {
			for k, o := range others {
				if used[k] {
					continue
				}
				gn := g.Clone()
				o.apply(gn)
				if !r.wants(gn) {
					legit = true
				}
				used[k] = true
				walk(gn, used)
				used[k] = false
			}
		}
		walk(g0, make([]bool, len(others)))
		if r.kind == 2 && !g0.Live(r.key) {
			legit = true // delete of an absent key reports Succeeded=false without error
		}
		zzverif.Assert(legit, "a failed condition is reported only if the key really differed from the expectation")
	}
	// (c): the store holds exactly the chain: reads at the latest revision agree with the model
	w.g = g
	for i := 0; i < w.nkeys; i++ {
		w.checkGet(vNames[i], 0)
	}
	zzverif.Cover("done")
}

// vYieldTSO makes revision dealing a named scheduling point (so that native replays can force
// the order in which concurrent requests are stamped).
type vYieldTSO struct{ tso.TSO }

func (t *vYieldTSO) Deal() (uint64, error) {
	zzverif.YieldAt("deal")
	defer zzverif.YieldAt("deal-done")
	return t.TSO.Deal()
}

// VerifC01TwoNodes: around a leader transfer two nodes share the engine for a moment: the new
// leader's revision generator is far ahead and it has written the key; the old node (generator
// behind) still answers one conditional write — an update or delete naming any revision, also
// exactly the one the new leader wrote. That write either fails (condition or revision drift) or,
// if it succeeds, lands above its predecessor: the key's successful writes stay one chain in
// revision order, and a read returns the newest of them.
func VerifC01TwoNodes() {
	w := vNewWorld(1)
	key := vNames[0]
	ahead := vNewBackend(w.s, w.base+1000, 4) // the node that has taken over
	val := zzverif.Bytes("new.val", 1)
	cr, err := ahead.Create(vCtx(), &proto.CreateRequest{Key: key, Value: val})
	zzverif.Assert(err == nil && cr.Succeeded, "new leader: create")
	zzverif.WaitIdle()
	top := cr.Header.Revision
	if zzverif.Choose("newLeaderUpdates", 2) == 1 {
		up, err := ahead.Update(vCtx(), &proto.UpdateRequest{Kv: &proto.KeyValue{Key: key, Value: val, Revision: top}})
		zzverif.Assert(err == nil && up.Succeeded, "new leader: update")
		top = up.Header.Revision
		zzverif.WaitIdle()
	}
	// the old node's late write
	exp := zzverif.U64("exp")
	oval := zzverif.Bytes("old.val", 1)
	var ok bool
	var rev uint64
	del := zzverif.Choose("oldDeletes", 2) == 1
	if del {
		r, err := w.b.Delete(vCtx(), &proto.DeleteRequest{Key: key, Revision: exp})
		if err == nil {
			ok, rev = r.Succeeded, r.Header.Revision
		}
	} else {
		r, err := w.b.Update(vCtx(), &proto.UpdateRequest{Kv: &proto.KeyValue{Key: key, Value: oval, Revision: exp}})
		if err == nil {
			ok, rev = r.Succeeded, r.Header.Revision
		}
	}
	zzverif.WaitIdle()
	if ok {
		zzverif.Assert(exp == top || (del && exp == 0), "a conditional write succeeds only if it named the newest revision")
		zzverif.Assert(rev > top, "a successful write lands above the write it named: modification revisions strictly increase along the key's history")
		zzverif.Cover("old-node-write-succeeded")
	} else {
		zzverif.Cover("old-node-write-refused")
		// the key is unchanged: the new leader still reads its own write
		g, err := ahead.Get(vCtx(), &proto.GetRequest{Key: key})
		zzverif.Assert(err == nil && g.Kv != nil && g.Kv.Revision == top && zzverif.BytesEq(g.Kv.Value, val), "a refused write leaves the key unchanged")
	}
	zzverif.Cover("done")
}

// VerifC16RefusedDelete: a guarded delete / guarded update names the key's current revision, and
// another client's delete of the key lands between the request's read and its commit (forced from
// the engine's begin-of-transaction hook, no scheduler involved): the request is refused, and its
// failure branch carries no key-value — the key has no current one — as etcd answers the same history.
func VerifC16RefusedDelete() {
	w := vNewWorld(1)
	key := vNames[0]
	rev := w.create("c", key)
	zzverif.WaitIdle()
	first := true
	w.s.OnBegin = func(ops []zzmodel.Op) {
		if first {
			first = false
			d, err := w.b.Delete(vCtx(), &proto.DeleteRequest{Key: key})
			zzverif.Assert(err == nil && d.Succeeded, "the other client's delete succeeds")
			zzverif.Cover("deleted-meanwhile")
		}
	}
	if zzverif.Choose("kind", 2) == 0 {
		resp, err := w.b.Delete(vCtx(), &proto.DeleteRequest{Key: key, Revision: rev})
		zzverif.Assert(err == nil && !resp.Succeeded, "the guarded delete is refused")
		zzverif.Assert(resp.Kv == nil, "the failure branch of a delete whose key another client deleted meanwhile carries no key-value")
	} else {
		resp, err := w.b.Update(vCtx(), &proto.UpdateRequest{Kv: &proto.KeyValue{Key: key, Value: zzverif.Bytes("u", 1), Revision: rev}})
		zzverif.Assert(err == nil && !resp.Succeeded, "the guarded update is refused")
		zzverif.Assert(resp.Kv == nil, "the failure branch of an update whose key another client deleted meanwhile carries no key-value")
	}
	w.s.OnBegin = nil
	zzverif.WaitIdle()
	g, err := w.b.Get(vCtx(), &proto.GetRequest{Key: key})
	zzverif.Assert(err == nil && g.Kv == nil, "the key is deleted")
	zzverif.Cover("done")
}
