//go:build verif

package backend

import (
	"sync"

	proto "github.com/kubewharf/kubebrain-client/api/v2rpc"

	"github.com/kubewharf/kubebrain/pkg/backend/tso"
	"github.com/kubewharf/kubebrain/pkg/zzverif"
)

// vGateTSO lets a harness hold back the sequencer's Commit (the readable revision) while
// requests are issued: the window in which a write is stored but not yet reported readable.
type vGateTSO struct {
	tso.TSO
	mu sync.Mutex
}

func (g *vGateTSO) Commit(rev uint64) {
	g.mu.Lock()
	g.mu.Unlock()
	g.TSO.Commit(rev)
}

// VerifC02Header: the header revision of every response is >= the modification revision of
// the data it carries — also for reads issued while a stored write is not yet reported readable
// (a client listing at the revision its own write returned).
func VerifC02Header() {
	gate := &vGateTSO{}
	w := vNewWorldTSO(zzverif.Param("keys", 1), func(t tso.TSO) tso.TSO { gate.TSO = t; return gate })
	w.history()
	gate.mu.Lock()
	key := w.key("k")
	val := zzverif.Bytes("v", 1)
	resp, err := w.b.Update(vCtx(), &proto.UpdateRequest{Kv: &proto.KeyValue{Key: key, Value: val, Revision: 0}})
	w.dealt++
	zzverif.Assert(err == nil, "write: no error")
	zzverif.WaitIdle() // the sequencer is now stuck at the gate
	r := zzverif.U64("R")
	zzverif.Assume(zzverif.Or(r == 0, zzverif.And(r > w.base, r <= w.dealt)))
	readable := w.b.GetCurrentRevision() // what the node has reported readable so far
	what := zzverif.Choose("read", 3)
	// read issues the chosen read and returns what came back, flattened
	read := func(when string) (kvs []*proto.KeyValue) {
		switch what {
		case 0:
			g, err := w.b.Get(vCtx(), &proto.GetRequest{Key: key, Revision: r})
			zzverif.Assert(err == nil, "get: no error")
			if g.Kv != nil {
				zzverif.Assert(g.Header.Revision >= g.Kv.Revision, "get: header >= kv revision")
				zzverif.Cover("get-kv")
				kvs = append(kvs, g.Kv)
			}
		case 1:
			l, err := w.b.List(vCtx(), &proto.RangeRequest{Key: vRanges[0][0], End: vRanges[0][1], Revision: r})
			zzverif.Assert(err == nil, "list: no error")
			for _, kv := range l.Kvs {
				zzverif.Assert(l.Header.Revision >= kv.Revision, "list: header >= kv revision")
				if resp.Succeeded && kv.Revision == resp.Header.Revision {
					zzverif.Cover("list-sees-unreported-write")
				}
			}
			kvs = l.Kvs
		default:
			l, err := w.b.List(vCtx(), &proto.RangeRequest{Key: vRanges[0][0], End: vRanges[0][1], Revision: r, Limit: 1})
			zzverif.Assert(err == nil, "limited list: no error")
			for _, kv := range l.Kvs {
				zzverif.Assert(l.Header.Revision >= kv.Revision, "limited list: header >= kv revision")
			}
			kvs = l.Kvs
		}
		if r != 0 {
			for _, kv := range kvs {
				zzverif.Assert(kv.Revision <= r, "a read at revision R never returns a version newer than R ("+when+")")
			}
		}
		return kvs
	}
	first := read("while a later write is stored but not yet readable")
	gate.mu.Unlock()
	zzverif.WaitIdle()
	zzverif.Assert(w.b.GetCurrentRevision() == w.dealt, "committed revision reaches the highest dealt revision")
	if r != 0 && r <= readable {
		// a revision the node had reported readable: the same read gives the same answer again
		again := read("asked again")
		zzverif.Assert(len(again) == len(first), "the same read at a readable revision gives the same answer when asked again: number of kvs")
		for i := range first {
			if i < len(again) {
				zzverif.Assert(zzverif.BytesEq(first[i].Key, again[i].Key) && zzverif.BytesEq(first[i].Value, again[i].Value) && first[i].Revision == again[i].Revision,
					"the same read at a readable revision gives the same answer when asked again")
			}
		}
		zzverif.Cover("asked-again")
	}
	zzverif.Cover("done")
}
