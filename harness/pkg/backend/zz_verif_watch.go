//go:build verif

package backend

import (
	"bytes"

	proto "github.com/kubewharf/kubebrain-client/api/v2rpc"

	"github.com/kubewharf/kubebrain/pkg/backend/tso"
	"github.com/kubewharf/kubebrain/pkg/zzmodel"
	"github.com/kubewharf/kubebrain/pkg/zzverif"
)

var vWatchPrefixes = []string{"/r/", "/r/a", "/r/a/", "/r/ab"}

// vDrainEvents empties a watch result channel without blocking.
func vDrainEvents(ch <-chan []*proto.Event) (evs []*proto.Event, closed bool) {
	for {
		select {
		case batch, ok := <-ch:
			if !ok {
				return evs, true
			}
			zzverif.Assert(len(batch) > 0, "watch never delivers an empty batch")
			evs = append(evs, batch...)
		default:
			return evs, false
		}
	}
}

// checkEvents compares delivered events with the reference events from index `from` on that
// have revision >= s and match the prefix.
func (w *vWorld) checkEvents(got []*proto.Event, from int, s uint64, prefix string) {
	var want []vEvent
	for _, e := range w.evs[from:] {
		if e.rev >= s && bytes.HasPrefix(e.key, []byte(prefix)) {
			want = append(want, e)
		}
	}
	zzverif.Assert(len(got) == len(want), "watch: exactly the matching changes, once each")
	for i := range want {
		zzverif.Assert(got[i].Revision == want[i].rev, "watch: events in revision order")
		zzverif.Assert(got[i].Type == want[i].typ, "watch: event kind")
		zzverif.Assert(got[i].Kv != nil, "watch: event carries a kv")
		zzverif.Assert(zzverif.BytesEq(got[i].Kv.Key, want[i].key), "watch: event key")
		zzverif.Assert(zzverif.BytesEq(got[i].Kv.Value, want[i].val), "watch: event value (previous value for a delete)")
		zzverif.Assert(got[i].Kv.Revision == want[i].kvRev, "watch: kv revision (previous modification revision for a delete)")
	}
	if len(want) > 0 {
		zzverif.Cover("events-delivered")
	}
	if len(want) > 1 {
		zzverif.Cover("several-events")
	}
}

// VerifC05Watch (sequential client): history, watch from a symbolic start revision, further
// writes; at quiescence the delivered sequence is exactly the reference sequence, or the watch
// was refused.
func VerifC05Watch() {
	w := vNewWorld(zzverif.Param("keys", 2))
	w.history()
	if zzverif.Param("newleader", 0) == 1 && zzverif.Choose("newLeader", 2) == 1 {
		w.newLeader() // the watch is served by a node that has just taken over
	}
	s := zzverif.U64("S")
	zzverif.Assume(s <= w.dealt+3)
	prefix := vWatchPrefixes[zzverif.Choose("prefix", len(vWatchPrefixes))]
	from := 0
	if s == 0 {
		from = len(w.evs) // a watch without start revision sees the changes made after it started
	}
	ch, err := w.b.Watch(vCtx(), prefix, s)
	if err != nil {
		// refused: allowed only when history that the watch needs may be gone
		zzverif.Assert(s != 0 && s <= w.dealt, "watch refused although no history is needed")
		zzverif.Cover("refused")
		return
	}
	n := zzverif.Param("later", 1)
	for i := 0; i < n; i++ {
		w.step()
	}
	zzverif.WaitIdle()
	got, closed := vDrainEvents(ch)
	zzverif.Assert(!closed, "watch of a consumer that keeps up stays open")
	w.checkEvents(got, from, s, prefix)
	if s > 0 && s <= w.dealt-uint64(n) {
		zzverif.Cover("catch-up-from-cache")
	}
	zzverif.Cover("done")
}

// vWriteSeq issues a fixed sequence of successful writes (create, then updates) with symbolic
// values on vNames[0]; it returns nothing and never waits for the sequencer.
func (w *vWorld) vWriteSeq(n int) { w.vWriteSeqOn(vNames[0], n) }

// vWriteSeqOn is vWriteSeq on the given key.
func (w *vWorld) vWriteSeqOn(key []byte, n int) {
	var last uint64
	if cur, ok := w.g.At(key, 0); ok {
		last = cur.Rev
	}
	for i := 0; i < n; i++ {
		val := zzverif.Bytes("seq"+string(rune('0'+i)), 1)
		var typ proto.Event_EventType
		var rev uint64
		if last == 0 {
			resp, err := w.b.Create(vCtx(), &proto.CreateRequest{Key: key, Value: val})
			zzverif.Assert(err == nil && resp.Succeeded, "writer: create succeeds")
			rev, typ = resp.Header.Revision, proto.Event_CREATE
		} else {
			resp, err := w.b.Update(vCtx(), &proto.UpdateRequest{Kv: &proto.KeyValue{Key: key, Value: val, Revision: last}})
			zzverif.Assert(err == nil && resp.Succeeded, "writer: update succeeds")
			rev, typ = resp.Header.Revision, proto.Event_PUT
		}
		w.dealt++
		w.g.Append(key, rev, val, false)
		w.evs = append(w.evs, vEvent{typ, key, val, rev, rev})
		last = rev
	}
}

// VerifC05Handover: watch registration racing writes (before registration, between subscription
// and cache read, after): every interleaving of the registering client, the writer, the
// sequencer and the fan-out within the preemption bound. The delivered sequence is exactly the
// reference sequence, or the watch was refused.
func VerifC05Handover() {
	// metric emissions inside Watch / the sequencer are labelled scheduling points (native gates)
	ym := &zzmodel.YieldMetrics{}
	w := &vWorld{s: zzmodel.NewStore(), g: zzmodel.NewGhost(), nkeys: 1, base: 5, dealt: 5}
	w.b = vNewBackendFull(w.s, 5, zzverif.Param("cache", 8), func(t tso.TSO) tso.TSO { return t }, ym)
	w.vWriteSeq(zzverif.Param("before", 1))
	zzverif.WaitIdle()
	s := zzverif.U64("S")
	zzverif.Assume(zzverif.And(s > 0, s <= w.dealt+uint64(zzverif.Param("during", 2))+1))
	var ch <-chan []*proto.Event
	var werr error
	done := make(chan struct{}, 2)
	ym.Yield = zzverif.YieldAt
	zzverif.ExploreSchedules(zzverif.Param("preempt", 1))
	zzverif.Foreground("collectStorageWriteEvents")
	zzverif.Foreground("Stream")
	zzverif.Go("watch", func() {
		ch, werr = w.b.Watch(vCtx(), "/r/", s)
		done <- struct{}{}
	})
	zzverif.Go("writer", func() {
		w.vWriteSeq(zzverif.Param("during", 2))
		done <- struct{}{}
	})
	<-done
	<-done
	zzverif.StopExploring()
	ym.Yield = nil
	zzverif.WaitIdle()
	if werr != nil {
		zzverif.Cover("refused")
		return
	}
	got, closed := vDrainEvents(ch)
	zzverif.Assert(!closed, "watch of a consumer that keeps up stays open")
	w.checkEvents(got, 0, s, "/r/")
	zzverif.Cover("done")
}

// VerifC05SlowConsumer: the fan-out stage in isolation. A subscriber whose buffers hold one
// batch is registered with the real hub and forwarded by the real processEvents; k batches are
// queued for broadcast; the consumer reads concurrently with the fan-out, the forwarder and the
// removal of overflowing subscribers, in every interleaving within the delay bound. The delivered
// sequence must be a gap-free prefix of the broadcast sequence: a stream never continues past an
// event it did not deliver.
func VerifC05SlowConsumer() {
	w := vNewWorld(1)
	sub := make(chan []*proto.Event, 1)
	result := make(chan []*proto.Event, 1)
	w.b.watcherHub.Lock()
	w.b.watcherHub.subs[sub] = struct{}{}
	w.b.watcherHub.Unlock()
	k := zzverif.Param("batches", 5)
	for i := 1; i <= k; i++ {
		w.b.watchChan <- []*proto.Event{{Type: proto.Event_PUT, Revision: uint64(100 + i), Kv: &proto.KeyValue{Key: vNames[0], Value: zzverif.Bytes("e"+string(rune('0'+i)), 1), Revision: uint64(100 + i)}}}
	}
	var got []*proto.Event
	closed := false
	done := make(chan struct{}, 1)
	zzverif.ExploreSchedules(zzverif.Param("preempt", 2))
	zzverif.Foreground("Stream")
	zzverif.Go("forwarder", func() { w.b.processEvents(func() {}, result, sub, "/r/", 0) })
	zzverif.Go("consumer", func() {
		for i := 0; i < zzverif.Param("reads", 4); i++ {
			batch, ok := <-result
			if !ok {
				closed = true
				break
			}
			got = append(got, batch...)
		}
		done <- struct{}{}
	})
	<-done
	zzverif.StopExploring()
	zzverif.WaitIdle()
	for i, e := range got {
		zzverif.Assert(e.Revision == uint64(101+i), "a stream never continues past an event it did not deliver")
	}
	if closed {
		zzverif.Cover("closed-for-slow-consumer")
	}
	if len(got) >= 3 {
		zzverif.Cover("several-delivered")
	}
	zzverif.Cover("done")
}
