//go:build verif

package backend

import (
	"bytes"

	proto "github.com/kubewharf/kubebrain-client/api/v2rpc"

	"github.com/kubewharf/kubebrain/pkg/zzverif"
)

var vWatchPrefixes = []string{"/r/", "/r/a", "/r/a/", "/r/ab"}

// vDrainEvents empties a watch result channel without blocking.
func vDrainEvents(ch <-chan []*proto.Event) (evs []*proto.Event, closed bool) {
	for {
		select {
		case batch, ok := <-ch:
			if !ok {
				return evs, true
			}
			zzverif.Assert(len(batch) > 0, "watch never delivers an empty batch")
			evs = append(evs, batch...)
		default:
			return evs, false
		}
	}
}

// checkEvents compares delivered events with the reference events from index `from` on that
// have revision >= s and match the prefix.
func (w *vWorld) checkEvents(got []*proto.Event, from int, s uint64, prefix string) {
	var want []vEvent
	for _, e := range w.evs[from:] {
		if e.rev >= s && bytes.HasPrefix(e.key, []byte(prefix)) {
			want = append(want, e)
		}
	}
	zzverif.Assert(len(got) == len(want), "watch: exactly the matching changes, once each")
	for i := range want {
		zzverif.Assert(got[i].Revision == want[i].rev, "watch: events in revision order")
		zzverif.Assert(got[i].Type == want[i].typ, "watch: event kind")
		zzverif.Assert(got[i].Kv != nil, "watch: event carries a kv")
		zzverif.Assert(zzverif.BytesEq(got[i].Kv.Key, want[i].key), "watch: event key")
		zzverif.Assert(zzverif.BytesEq(got[i].Kv.Value, want[i].val), "watch: event value (previous value for a delete)")
		zzverif.Assert(got[i].Kv.Revision == want[i].kvRev, "watch: kv revision (previous modification revision for a delete)")
	}
	if len(want) > 0 {
		zzverif.Cover("events-delivered")
	}
	if len(want) > 1 {
		zzverif.Cover("several-events")
	}
}

// VerifC05Watch (sequential client): history, watch from a symbolic start revision, further
// writes; at quiescence the delivered sequence is exactly the reference sequence, or the watch
// was refused.
func VerifC05Watch() {
	w := vNewWorld(zzverif.Param("keys", 2))
	w.history()
	s := zzverif.U64("S")
	zzverif.Assume(s <= w.dealt+3)
	prefix := vWatchPrefixes[zzverif.Choose("prefix", len(vWatchPrefixes))]
	from := 0
	if s == 0 {
		from = len(w.evs) // a watch without start revision sees the changes made after it started
	}
	ch, err := w.b.Watch(vCtx(), prefix, s)
	if err != nil {
		// refused: allowed only when history that the watch needs may be gone
		zzverif.Assert(s != 0 && s <= w.dealt, "watch refused although no history is needed")
		zzverif.Cover("refused")
		return
	}
	n := zzverif.Param("later", 1)
	for i := 0; i < n; i++ {
		w.step()
	}
	zzverif.WaitIdle()
	got, closed := vDrainEvents(ch)
	zzverif.Assert(!closed, "watch of a consumer that keeps up stays open")
	w.checkEvents(got, from, s, prefix)
	if s > 0 && s <= w.dealt-uint64(n) {
		zzverif.Cover("catch-up-from-cache")
	}
	zzverif.Cover("done")
}
