//go:build verif

package backend

import (
	proto "github.com/kubewharf/kubebrain-client/api/v2rpc"

	"github.com/kubewharf/kubebrain/pkg/zzverif"
)

// VerifC08Race: an unlimited or paginated range read or a streamed range at an old revision r racing a
// compaction at R > r (every interleaving of their store operations within the delay bound): the
// read is refused, or it is answered with exactly the state at r — never with data the
// compaction has already gone over. The engine reads at the snapshot named by its timestamp
// oracle (TiKV) or, as a symbolic alternative, at the moment each iterator is opened (memkv,
// Badger: the adapters ignore the timestamp).
func VerifC08Race() {
	w := vNewWorld(1)
	w.vScenario(zzverif.Choose("scenario", 3))
	r := zzverif.U64("r")
	c := zzverif.U64("c")
	zzverif.Assume(zzverif.And(r > w.base, r < c))
	zzverif.Assume(c <= w.dealt)
	snapshots := zzverif.Bool("engineHonoursSnapshot")
	if snapshots {
		w.s.EnableSnapshots()
	}
	rg := vRanges[0]
	read := zzverif.Choose("read", 3)
	stream := read == 1
	limit := int64(0)
	if read == 2 {
		limit = 2 // the paginated path (one worker, its own floor check)
	}
	var kvs []*proto.KeyValue
	var rerr bool
	accepted := false
	w.s.Yield = zzverif.YieldAt
	done := make(chan struct{}, 2)
	zzverif.ExploreSchedules(zzverif.Param("preempt", 2))
	zzverif.Go("reader", func() {
		if stream {
			ch, err := w.b.ListByStream(vCtx(), w.b.coder.EncodeObjectKey(rg[0], 0), w.b.coder.EncodeObjectKey(rg[1], 0), r)
			if err != nil {
				rerr = true
			} else {
				got, nterm, errText, _, _ := vDrain(ch)
				zzverif.Assert(nterm == 1, "stream ends with exactly one terminator")
				kvs, rerr = got, errText != ""
			}
		} else {
			resp, err := w.b.List(vCtx(), &proto.RangeRequest{Key: rg[0], End: rg[1], Revision: r, Limit: limit})
			if err != nil {
				rerr = true
			} else {
				kvs = resp.Kvs
			}
		}
		done <- struct{}{}
	})
	zzverif.Go("compactor", func() {
		zzverif.YieldAt("compact")
		_, err := w.b.Compact(vCtx(), c)
		accepted = err == nil
		done <- struct{}{}
	})
	<-done
	<-done
	zzverif.StopExploring()
	w.s.Yield = nil
	zzverif.WaitIdle()
	zzverif.Assert(accepted, "compaction accepted")
	if rerr {
		zzverif.Cover("refused")
	} else {
		want, _ := w.g.List(rg[0], rg[1], r, 0)
		ok := len(kvs) == len(want)
		for i := 0; ok && i < len(want); i++ {
			ok = zzverif.BytesEq(kvs[i].Key, want[i].Key) && zzverif.BytesEq(kvs[i].Value, want[i].Val) && kvs[i].Revision == want[i].Rev
		}
		zzverif.Observe("served", len(kvs), len(want))
		if !ok {
			zzverif.Finding("engine_iterators_ignore_snapshot_timestamp", !snapshots)
		}
		zzverif.Assert(ok, "a range read racing a compaction above its revision is refused or answered with the exact state at its revision")
		zzverif.Cover("served")
	}
	// afterwards the floor stands
	_, err := w.b.List(vCtx(), &proto.RangeRequest{Key: rg[0], End: rg[1], Revision: r})
	zzverif.Assert(err != nil, "after the compaction a read below it is refused")
	zzverif.Cover("done")
}
