//go:build verif

package backend

import (
	proto "github.com/kubewharf/kubebrain-client/api/v2rpc"

	"github.com/kubewharf/kubebrain/pkg/zzverif"
)

// VerifC08Race: an unlimited or paginated range read or a streamed range at an old revision r racing a
// compaction at R > r (every interleaving of their store operations within the delay bound): the
// read is refused, or it is answered with exactly the state at r — never with data the
// compaction has already gone over. The engine reads at the snapshot named by its timestamp
// oracle (TiKV) or, as a symbolic alternative, at the moment each iterator is opened (memkv,
// Badger: the adapters ignore the timestamp).
func VerifC08Race() {
	w := vNewWorld(1)
	w.vScenario(zzverif.Choose("scenario", 3))
	r := zzverif.U64("r")
	c := zzverif.U64("c")
	zzverif.Assume(zzverif.And(r > w.base, r < c))
	zzverif.Assume(c <= w.dealt)
	snapshots := zzverif.Bool("engineHonoursSnapshot")
	if snapshots {
		w.s.EnableSnapshots()
	}
	rg := vRanges[0]
	read := zzverif.Choose("read", 3)
	stream := read == 1
	limit := int64(0)
	if read == 2 {
		limit = 2 // the paginated path (one worker, its own floor check)
	}
	var kvs []*proto.KeyValue
	var rerr bool
	accepted := false
	w.s.Yield = zzverif.YieldAt
	done := make(chan struct{}, 2)
	zzverif.ExploreSchedules(zzverif.Param("preempt", 2))
	zzverif.Go("reader", func() {
		if stream {
			ch, err := w.b.ListByStream(vCtx(), w.b.coder.EncodeObjectKey(rg[0], 0), w.b.coder.EncodeObjectKey(rg[1], 0), r)
			if err != nil {
				rerr = true
			} else {
				got, nterm, errText, _, _ := vDrain(ch)
				zzverif.Assert(nterm == 1, "stream ends with exactly one terminator")
				kvs, rerr = got, errText != ""
			}
		} else {
			resp, err := w.b.List(vCtx(), &proto.RangeRequest{Key: rg[0], End: rg[1], Revision: r, Limit: limit})
			if err != nil {
				rerr = true
			} else {
				kvs = resp.Kvs
			}
		}
		done <- struct{}{}
	})
	zzverif.Go("compactor", func() {
		zzverif.YieldAt("compact")
		_, err := w.b.Compact(vCtx(), c)
		accepted = err == nil
		done <- struct{}{}
	})
	<-done
	<-done
	zzverif.StopExploring()
	w.s.Yield = nil
	zzverif.WaitIdle()
	zzverif.Assert(accepted, "compaction accepted")
	if rerr {
		zzverif.Cover("refused")
	} else {
		want, _ := w.g.List(rg[0], rg[1], r, 0)
		ok := len(kvs) == len(want)
		for i := 0; ok && i < len(want); i++ {
			ok = zzverif.BytesEq(kvs[i].Key, want[i].Key) && zzverif.BytesEq(kvs[i].Value, want[i].Val) && kvs[i].Revision == want[i].Rev
		}
		zzverif.Observe("served", len(kvs), len(want))
		if !ok {
			zzverif.Finding("engine_iterators_ignore_snapshot_timestamp", !snapshots)
		}
		zzverif.Assert(ok, "a range read racing a compaction above its revision is refused or answered with the exact state at its revision")
		zzverif.Cover("served")
	}
	// afterwards the floor stands
	_, err := w.b.List(vCtx(), &proto.RangeRequest{Key: rg[0], End: rg[1], Revision: r})
	zzverif.Assert(err != nil, "after the compaction a read below it is refused")
	zzverif.Cover("done")
}

// VerifC08TwoCompactions: two compaction requests at symbolic revisions run at the same time (the
// periodic loop and a client request: nothing serialises them), every interleaving of their store
// operations within the delay bound. Afterwards the record stands at or above every accepted
// request's revision, and a range read below the highest accepted revision is refused.
func VerifC08TwoCompactions() {
	w := vNewWorld(1)
	w.vScenario(1) // one key with two live versions
	w.vWriteSeq(1)
	zzverif.WaitIdle()
	var revs [2]uint64
	var oks [2]bool
	var effs [2]uint64
	for i := range revs {
		revs[i] = zzverif.U64("c" + string(rune('0'+i)))
		zzverif.Assume(zzverif.And(revs[i] > w.base, revs[i] <= w.dealt))
	}
	zzverif.Assume(revs[0] < revs[1])
	w.s.Yield = zzverif.YieldAt
	done := make(chan struct{}, 2)
	zzverif.ExploreSchedules(zzverif.Param("preempt", 2))
	for i := 0; i < 2; i++ {
		i := i
		zzverif.Go("compactor"+string(rune('0'+i)), func() {
			resp, err := w.b.Compact(vCtx(), revs[i])
			if err == nil {
				oks[i], effs[i] = true, resp.Header.Revision
			}
			done <- struct{}{}
		})
	}
	<-done
	<-done
	zzverif.StopExploring()
	w.s.Yield = nil
	zzverif.WaitIdle()
	var floor uint64
	for i := range revs {
		if oks[i] && effs[i] > floor {
			floor = effs[i]
		}
	}
	if oks[0] && oks[1] {
		zzverif.Cover("both-accepted")
	}
	zzverif.Assert(w.record() >= floor, "concurrent compaction requests leave the record at or above every accepted revision")
	r := zzverif.U64("R")
	zzverif.Assume(zzverif.And(r > w.base, r < floor))
	rg := vRanges[0]
	_, err := w.b.List(vCtx(), &proto.RangeRequest{Key: rg[0], End: rg[1], Revision: r})
	zzverif.Assert(err != nil, "a range read below an accepted compaction is refused")
	zzverif.Cover("done")
}

// VerifC08TwoNodes: two nodes share one engine (a leader and a follower that serves reads at the
// leader's revision). The follower has just served a range read; the leader accepts a compaction
// at R; a range read, limited range read or streamed range below R on the follower — which starts
// after the compaction was accepted — is refused, exactly as on the leader.
func VerifC08TwoNodes() {
	w := vNewWorld(1)
	w.vScenario(1) // two live versions
	w.vWriteSeq(1)
	zzverif.WaitIdle()
	follower := vNewBackend(w.s, w.dealt, 4)
	rg := vRanges[0]
	_, err := follower.List(vCtx(), &proto.RangeRequest{Key: rg[0], End: rg[1]})
	zzverif.Assert(err == nil, "follower: range read before the compaction")
	c := zzverif.U64("c")
	zzverif.Assume(zzverif.And(c > w.base+1, c <= w.dealt))
	ok, eff := w.compact(c)
	zzverif.Assert(ok && eff == c, "leader: compaction accepted")
	r := zzverif.U64("R")
	zzverif.Assume(zzverif.And(r > w.base, r < c))
	switch zzverif.Choose("read", 3) {
	case 0:
		_, err := follower.List(vCtx(), &proto.RangeRequest{Key: rg[0], End: rg[1], Revision: r})
		zzverif.Assert(err != nil, "follower: unlimited range read below the floor is refused")
	case 1:
		_, err := follower.List(vCtx(), &proto.RangeRequest{Key: rg[0], End: rg[1], Revision: r, Limit: 1})
		zzverif.Assert(err != nil, "follower: limited range read below the floor is refused")
	default:
		ch, err := follower.ListByStream(vCtx(), follower.coder.EncodeObjectKey(rg[0], 0), follower.coder.EncodeObjectKey(rg[1], 0), r)
		zzverif.Assert(err == nil, "stream starts")
		kvs, nterm, errText, _, _ := vDrain(ch)
		zzverif.Assert(nterm == 1 && errText != "" && len(kvs) == 0, "follower: streamed range below the floor ends with an error and no data")
	}
	zzverif.Cover("done")
}
