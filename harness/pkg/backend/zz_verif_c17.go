//go:build verif

package backend

import (
	proto "github.com/kubewharf/kubebrain-client/api/v2rpc"

	"github.com/kubewharf/kubebrain/pkg/backend/tso"
	"github.com/kubewharf/kubebrain/pkg/zzmodel"
	"github.com/kubewharf/kubebrain/pkg/zzverif"
)

// VerifC17Prefix: a key is given a TTL (treated as an Event) only if it lies in the events
// resource directory directly under the configured prefix.
func VerifC17Prefix() {
	n := 10 + zzverif.Choose("extra", zzverif.Param("extra", 4)+1)
	key := zzverif.Bytes("key", n)
	for i := range key {
		zzverif.Assume(key[i] > '$')
	}
	s := zzmodel.NewStore()
	b := vNewBackend(s, 5, 4)
	_, err := b.Create(vCtx(), &proto.CreateRequest{Key: key, Value: []byte("v")})
	zzverif.Assert(err == nil, "create: no error")
	isEvent := zzverif.HasPrefix(key, []byte(vPrefix+"/events/"))
	ttl := false
	for _, e := range s.Ents {
		if e.TTL != 0 {
			ttl = true
		}
	}
	if ttl {
		zzverif.Cover("ttl-given")
		zzverif.Finding("events_substring_not_under_prefix", zzverif.Not(isEvent))
	}
	zzverif.Assert(zzverif.Implies(ttl, isEvent), "only keys under <prefix>/events/ are given a TTL")
	zzverif.Assert(zzverif.Implies(isEvent, ttl), "every Event key is given a TTL")
}

var vEventNames = [][]byte{[]byte("/r/events/e"), []byte("/r/x/events/e"), []byte("/r/a")}

// VerifC17Expiry: on an engine without native TTL, two compactions separated by a symbolic
// amount of time: only Event keys whose newest change is older than the TTL are removed, index
// and versions together, without any watch event; everything else reads as before.
func VerifC17Expiry() {
	saved := vNames
	vNames = vEventNames
	defer func() { vNames = saved }()
	eventsTTL = 1 // seconds; natively AdvanceClock really waits when the replayed path needs the TTL to elapse
	w := vNewWorld(zzverif.Param("keys", 3))
	w.s.TTLSupported = false
	w.history()
	ch, err := w.b.Watch(vCtx(), "/r/", 0)
	zzverif.Assert(err == nil, "watch accepted")
	// first compaction leaves a mark (revision m1 at time t1)
	ok1, m1 := w.compact(0)
	zzverif.Assert(ok1, "first compaction accepted")
	// a further write after the mark, then time passes
	if zzverif.Param("between", 1) == 1 {
		w.step()
	}
	zzverif.AdvanceClock()
	if zzverif.Param("expiryfaults", 0) == 1 {
		// one delete of the expiry pass fails with a plain storage error (a transient engine fault)
		at := zzverif.Choose("expiryFaultAt", 5) - 1
		n := 0
		w.s.FaultAt = func(kind string, _ int) zzmodel.Fault {
			if kind == "commit" {
				return zzmodel.FaultNone
			}
			n++
			if n-1 == at {
				zzverif.Cover("expiry-delete-failed")
				return zzmodel.FaultErr
			}
			return zzmodel.FaultNone
		}
	}
	ok2, _ := w.compact(0)
	w.s.FaultAt = nil
	zzverif.Assert(ok2, "second compaction accepted")
	zzverif.WaitIdle()
	evs, _ := vDrainEvents(ch)
	nAfter := 0
	if zzverif.Param("between", 1) == 1 {
		nAfter = 1
	}
	zzverif.Assert(len(evs) <= nAfter, "expiry produces no watch event")
	// classify what must have happened to each key
	for i := 0; i < w.nkeys; i++ {
		key := vNames[i]
		newest, have := w.g.Newest(key)
		resp, err := w.b.Get(vCtx(), &proto.GetRequest{Key: key})
		zzverif.Assert(err == nil, "get: no error")
		if i != 0 {
			// not an Event: never touched by expiry
			cur, live := w.g.At(key, 0)
			zzverif.Assert((resp.Kv != nil) == live, "non-Event key (even one that resembles the pattern) is never expired")
			if live {
				zzverif.Assert(zzverif.BytesEq(resp.Kv.Value, cur.Val) && resp.Kv.Revision == cur.Rev, "non-Event key unchanged")
			}
			if i == 1 && live {
				zzverif.Finding("events_substring_not_under_prefix", true)
			}
			continue
		}
		if !have || newest.Del {
			continue
		}
		if newest.Rev > m1 {
			// changed after the first mark: younger than any elapsed TTL
			zzverif.Assert(resp.Kv != nil && resp.Kv.Revision == newest.Rev, "an Event changed after the mark is never removed")
			zzverif.Cover("young-event-kept")
			continue
		}
		if resp.Kv == nil {
			// expired: index and versions are gone together: the key can be created again
			_, hasIdx := w.s.RawGet(w.b.coder.EncodeRevisionKey(key))
			zzverif.Assert(!hasIdx, "an expired key loses its index together with its versions")
			for _, e := range w.s.Ents {
				uk, _, derr := w.b.coder.Decode(e.Key)
				if derr == nil && len(e.Key) > 13 {
					zzverif.Assert(!zzverif.BytesEq(uk, key), "no record of an expired key is left behind")
				}
			}
			zzverif.Cover("event-expired")
		} else {
			zzverif.Assert(resp.Kv.Revision == newest.Rev, "an Event that is kept reads unchanged")
			zzverif.Cover("old-event-kept-ttl-not-elapsed")
		}
	}
	zzverif.Cover("done")
}

// VerifC17Race: time-based expiry of an Event racing an update of that Event (the expiry decision
// is taken from the scan's snapshot): an Event whose newest change is younger than the TTL is
// never removed, and index and versions stay together — afterwards the key either is wholly gone
// or accepts an update naming its latest revision and refuses a second create.
func VerifC17Race() {
	saved := vNames
	vNames = vEventNames
	defer func() { vNames = saved }()
	eventsTTL = 1 // seconds; natively the harness really waits (FireTickers sleeps longer than this)
	w := vNewWorldTSO(1, func(t tso.TSO) tso.TSO { return &vYieldTSO{t} })
	w.s.TTLSupported = false
	w.vScenario(1) // an Event with two versions
	key := vNames[0]
	ok1, _ := w.compact(0)
	zzverif.Assert(ok1, "first compaction (leaves the mark)")
	zzverif.AdvanceClock()
	zzverif.FireTickers()
	cur, _ := w.g.At(key, 0)
	req := &vReq{kind: 1, key: key, val: zzverif.Bytes("wr.val", 1), exp: cur.Rev}
	w.s.Yield = zzverif.YieldAt
	done := make(chan struct{}, 2)
	zzverif.ExploreSchedules(zzverif.Param("preempt", 2))
	zzverif.Go("compactor", func() {
		w.b.Compact(vCtx(), 0)
		done <- struct{}{}
	})
	zzverif.Go("writer", func() {
		w.issue(req)
		done <- struct{}{}
	})
	<-done
	<-done
	zzverif.StopExploring()
	w.s.Yield = nil
	w.dealt++
	zzverif.WaitIdle()
	zzverif.Assert(!req.err, "racing update answered")
	g, err := w.b.Get(vCtx(), &proto.GetRequest{Key: key})
	zzverif.Assert(err == nil, "get: no error")
	_, hasIdx := w.s.RawGet(w.b.coder.EncodeRevisionKey(key))
	if req.ok {
		zzverif.Cover("update-won")
		// the Event was changed after the mark: it must survive, whole
		zzverif.Assert(g.Kv != nil && g.Kv.Revision == req.rev, "an Event updated during the expiry scan is not removed")
		zzverif.Assert(hasIdx, "index and versions stay together")
		up, err := w.b.Update(vCtx(), &proto.UpdateRequest{Kv: &proto.KeyValue{Key: key, Value: []byte("z"), Revision: req.rev}})
		zzverif.Assert(err == nil && up.Succeeded, "the surviving Event accepts an update naming its latest revision")
		cr, err := w.b.Create(vCtx(), &proto.CreateRequest{Key: key, Value: []byte("y")})
		zzverif.Assert(err == nil && !cr.Succeeded, "the surviving Event refuses a second create")
	} else {
		zzverif.Cover("expiry-won")
		zzverif.Assert((g.Kv != nil) == hasIdx, "index and versions are removed together")
	}
	zzverif.Cover("done")
}

// VerifC17TwoCompactions: an old Event, a compaction (mark), more than the TTL passes, a young
// Event is created, then two compaction requests run at the same time (the periodic loop and a
// client request: nothing serialises them), every interleaving within the delay bound: the young
// Event — created less than the TTL ago — is never removed.
func VerifC17TwoCompactions() {
	saved := vNames
	vNames = [][]byte{[]byte("/r/events/old"), []byte("/r/events/young")}
	defer func() { vNames = saved }()
	eventsTTL = 1 // seconds; natively the harness really waits (FireTickers sleeps longer than this)
	w := vNewWorld(2)
	w.s.TTLSupported = false
	w.create("old", vNames[0])
	zzverif.WaitIdle()
	ok1, _ := w.compact(0)
	zzverif.Assert(ok1, "first compaction (leaves the mark)")
	zzverif.AdvanceClock()
	zzverif.FireTickers()
	young := w.create("young", vNames[1])
	zzverif.WaitIdle()
	done := make(chan struct{}, 2)
	// the log line between reading the oldest mark and removing it is a gate for native replays
	zzverif.GateLogs("check compact history")
	zzverif.ExploreSchedules(zzverif.Param("preempt", 2))
	for i := 0; i < 2; i++ {
		zzverif.Go("compactor"+string(rune('0'+i)), func() {
			w.b.Compact(vCtx(), 0)
			done <- struct{}{}
		})
	}
	<-done
	<-done
	zzverif.StopExploring()
	zzverif.WaitIdle()
	g, err := w.b.Get(vCtx(), &proto.GetRequest{Key: vNames[1]})
	zzverif.Assert(err == nil, "get: no error")
	zzverif.Assert(g.Kv != nil && g.Kv.Revision == young, "an Event younger than the TTL is not removed by concurrent compactions")
	_, hasIdx := w.s.RawGet(w.b.coder.EncodeRevisionKey(vNames[1]))
	zzverif.Assert(hasIdx, "the young Event keeps its index record")
	if o, _ := w.b.Get(vCtx(), &proto.GetRequest{Key: vNames[0]}); o.Kv == nil {
		zzverif.Cover("old-event-expired")
	}
	zzverif.Cover("done")
}

// VerifC17TTLWrites: on an engine with native TTL, a create / update / delete sequence on an Event
// key, on a key that merely contains /events/ and on a plain key, with symbolic lease fields in
// the requests (kube-apiserver sends leases through the etcd API): after every step, every record
// in the engine that carries a TTL belongs to a key under <prefix>/events/ — no write path hands a
// TTL to any other key, whatever lease the request names.
func VerifC17TTLWrites() {
	w := vNewWorld(1)
	w.s.TTLSupported = true
	key := vEventNames[zzverif.Choose("key", len(vEventNames))]
	check := func(step string) {
		for _, e := range w.s.Ents {
			if e.TTL == 0 {
				continue
			}
			name, _, err := w.b.coder.Decode(e.Key)
			zzverif.Assert(err == nil, "a record with a TTL is a well-formed internal key")
			zzverif.Assert(zzverif.HasPrefix(name, []byte(vPrefix+"/events/")), "only records of keys under <prefix>/events/ are written with a TTL ("+step+")")
			zzverif.Cover("ttl-record")
		}
		// the index record and the newest version of the key expire together (an engine with native
		// TTL removes each record on its own: a version that goes while its index record stays leaves
		// a key that reads as absent and can never be created again)
		var idxTTL, newestTTL int64
		var newest uint64
		hasIdx := false
		for _, e := range w.s.Ents {
			name, rev, err := w.b.coder.Decode(e.Key)
			if err != nil || !zzverif.BytesEq(name, key) {
				continue
			}
			if rev == 0 {
				idxTTL, hasIdx = e.TTL, true
			} else if rev > newest {
				newest, newestTTL = rev, e.TTL
			}
		}
		if hasIdx && newest != 0 {
			zzverif.Assert(idxTTL == newestTTL, "the index record and the newest version of a key carry the same TTL ("+step+")")
		}
	}
	c, err := w.b.Create(vCtx(), &proto.CreateRequest{Key: key, Value: []byte("c"), Lease: zzverif.I64("lease0")})
	zzverif.Assert(err == nil && c.Succeeded, "create")
	check("create")
	zzverif.WaitIdle()
	last := c.Header.Revision
	n := zzverif.Param("updates", 1)
	for i := 0; i < n; i++ {
		u, err := w.b.Update(vCtx(), &proto.UpdateRequest{Kv: &proto.KeyValue{Key: key, Value: []byte("u"), Revision: last}, Lease: zzverif.I64("lease" + string(rune('1'+i)))})
		zzverif.Assert(err == nil && u.Succeeded, "update")
		last = u.Header.Revision
		check("update")
		zzverif.WaitIdle()
	}
	if zzverif.Choose("delete", 2) == 1 {
		d, err := w.b.Delete(vCtx(), &proto.DeleteRequest{Key: key, Revision: last})
		zzverif.Assert(err == nil && d.Succeeded, "delete")
		check("delete")
		zzverif.WaitIdle()
		if zzverif.Choose("again", 2) == 1 {
			// created again over the deletion mark (no compaction in between)
			c, err := w.b.Create(vCtx(), &proto.CreateRequest{Key: key, Value: []byte("d"), Lease: zzverif.I64("leaseA")})
			zzverif.Assert(err == nil && c.Succeeded, "create again")
			check("create over a deletion mark")
			zzverif.WaitIdle()
			zzverif.Cover("created-again")
		}
	}
	zzverif.Cover("done")
}
