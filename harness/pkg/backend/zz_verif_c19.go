//go:build verif

package backend

import (
	"context"
	"sync/atomic"
	"time"

	proto "github.com/kubewharf/kubebrain-client/api/v2rpc"

	"github.com/kubewharf/kubebrain/pkg/storage"
	"github.com/kubewharf/kubebrain/pkg/storage/memkv"
	"github.com/kubewharf/kubebrain/pkg/zzmodel"
	"github.com/kubewharf/kubebrain/pkg/zzverif"
)

// VerifC19HubOverflow (run with the race monitor): the fan-out drops a subscriber whose buffer is
// full while a new watch registers and an existing one is cancelled: the registry of subscribers
// is never touched without the hub's lock.
func VerifC19HubOverflow() {
	w := vNewWorld(1)
	slow := make(chan []*proto.Event, 1) // a subscriber that never reads: overflows on the second batch
	w.b.watcherHub.Lock()
	w.b.watcherHub.subs[slow] = struct{}{}
	w.b.watcherHub.Unlock()
	ctx, cancel := context.WithCancel(context.Background())
	_, err := w.b.Watch(ctx, "/r/", 0)
	zzverif.Assert(err == nil, "watch accepted")
	zzverif.WaitIdle()
	for i := 1; i <= 3; i++ {
		w.b.watchChan <- []*proto.Event{{Type: proto.Event_PUT, Revision: uint64(100 + i), Kv: &proto.KeyValue{Key: vNames[0], Value: []byte("v"), Revision: uint64(100 + i)}}}
	}
	done := make(chan struct{}, 2)
	zzverif.ExploreSchedules(zzverif.Param("preempt", 1))
	zzverif.Foreground("Stream")
	zzverif.Go("newwatch", func() {
		_, err := w.b.Watch(context.Background(), "/r/", 0)
		zzverif.Assert(err == nil, "second watch accepted")
		done <- struct{}{}
	})
	zzverif.Go("cancel", func() {
		cancel()
		done <- struct{}{}
	})
	<-done
	<-done
	zzverif.StopExploring()
	zzverif.WaitIdle()
	w.b.watcherHub.RLock()
	_, open := w.b.watcherHub.subs[slow]
	w.b.watcherHub.RUnlock()
	zzverif.Assert(!open, "the overflowing subscriber was dropped")
	zzverif.Cover("done")
}

// vUnknownOnce wraps an engine: the first batch committed after arming lands, but its commit is
// answered "outcome unknown".
type vUnknownOnce struct {
	storage.KvStorage
	armed int32
}

type vUnknownBatch struct {
	storage.BatchWrite
	s *vUnknownOnce
}

func (s *vUnknownOnce) BeginBatchWrite() storage.BatchWrite {
	return &vUnknownBatch{s.KvStorage.BeginBatchWrite(), s}
}

func (b *vUnknownBatch) Commit(ctx context.Context) error {
	err := b.BatchWrite.Commit(ctx)
	if err == nil && atomic.CompareAndSwapInt32(&b.s.armed, 1, 0) {
		return storage.NewErrUncertainResult(zzmodel.ErrInjected)
	}
	return err
}

// VerifC19RetryLoop (run with the race monitor): over the real in-memory engine, a write whose
// commit was answered "outcome unknown" (and did land) sits in the repair queue; the background
// repair loop ticks while a second write on the same key, a compaction request (which asks the
// queue for its oldest unresolved revision) and a point read run — every interleaving of the
// repair loop, the sequencer and the three requests within the delay bound. No conflicting
// unsynchronised accesses (queue nodes, result slots, revision counters, the engine), and the
// node converges afterwards.
func VerifC19RetryLoop() {
	retryInterval = 1000 * time.Millisecond
	checkInterval = 50 * time.Millisecond
	kv := &vUnknownOnce{KvStorage: memkv.NewKvStorage()}
	b := NewBackend(kv, Config{Prefix: vPrefix, EnableEtcdCompatibility: true, WatchCacheSize: 4}, zzmodel.NoMetrics{}).(*backend)
	b.tso.Init(5)
	key := vNames[0]
	c, err := b.Create(vCtx(), &proto.CreateRequest{Key: key, Value: []byte("c")})
	zzverif.Assert(err == nil && c.Succeeded, "setup create")
	zzverif.WaitIdle()
	atomic.StoreInt32(&kv.armed, 1)
	_, err = b.Update(vCtx(), &proto.UpdateRequest{Kv: &proto.KeyValue{Key: key, Value: []byte("u"), Revision: c.Header.Revision}})
	zzverif.Assert(err != nil, "unknown outcome is reported as an error")
	zzverif.WaitIdle()
	zzverif.Assert(b.asyncFifoRetry.Size() == 1, "the unresolved write is queued for repair")
	done := make(chan struct{}, 3)
	zzverif.AdvanceClock()
	zzverif.ExploreSchedules(zzverif.Param("preempt", 1))
	zzverif.Foreground("collectStorageWriteEvents")
	zzverif.Foreground("Run")
	zzverif.FireTickers()
	zzverif.Go("writer", func() {
		b.Update(vCtx(), &proto.UpdateRequest{Kv: &proto.KeyValue{Key: key, Value: []byte("w"), Revision: c.Header.Revision + 1}})
		done <- struct{}{}
	})
	zzverif.Go("compactor", func() {
		b.Compact(vCtx(), 0)
		done <- struct{}{}
	})
	zzverif.Go("reader", func() {
		b.Get(vCtx(), &proto.GetRequest{Key: key})
		done <- struct{}{}
	})
	<-done
	<-done
	<-done
	zzverif.StopExploring()
	for i := 0; i < 3 && b.asyncFifoRetry.Size() > 0; i++ {
		zzverif.AdvanceClock()
		zzverif.FireTickers()
		zzverif.WaitIdle()
	}
	zzverif.WaitIdle()
	zzverif.Assume(b.asyncFifoRetry.Size() == 0) // the executions in which the repair loop got to run
	g, err := b.Get(vCtx(), &proto.GetRequest{Key: key})
	zzverif.Assert(err == nil && g.Kv != nil, "the key is readable after the repair")
	// every revision handed out meanwhile (also by the repair) was resolved: a later write becomes readable
	cr, err := b.Create(vCtx(), &proto.CreateRequest{Key: vNames[3], Value: []byte("l")})
	zzverif.Assert(err == nil && cr.Succeeded, "a later create succeeds")
	zzverif.WaitIdle()
	zzverif.Assert(b.GetCurrentRevision() >= cr.Header.Revision, "requests keep flowing after the repair: a later write becomes readable")
	zzverif.Cover("done")
}

// vStallStore is an engine one of whose reads does not come back for a while: the iterator of the
// next Iter after stall is set answers normally, but its Close returns only when release is
// closed (the caller has everything it asked for, and no engine lock is taken afterwards — natively
// a lock of the engine would order the late reader after whatever the node did meanwhile).
type vStallStore struct {
	storage.KvStorage
	stall   int32
	entered chan struct{}
	release chan struct{}
}

type vStallIter struct {
	storage.Iter
	s *vStallStore
}

func (s *vStallStore) Iter(ctx context.Context, start, end []byte, ts uint64, limit uint64) (storage.Iter, error) {
	it, err := s.KvStorage.Iter(ctx, start, end, ts, limit)
	if err == nil && atomic.CompareAndSwapInt32(&s.stall, 1, 0) {
		return &vStallIter{it, s}, nil
	}
	return it, err
}

func (it *vStallIter) Close() error {
	err := it.Iter.Close()
	it.s.entered <- struct{}{}
	<-it.s.release
	return err
}

// VerifC19RepairStall (run with the race monitor): the repair of a write with unknown outcome reads
// the key while the engine does not answer; the repair's deadline passes (zzverif.ExpireDeadlines),
// and only then the engine answers. Whatever the repair does about a read that outlives its
// deadline, no two unsynchronised accesses conflict, and the write is repaired and the node keeps
// serving once the engine answers again.
func VerifC19RepairStall() {
	retryInterval = 1000 * time.Millisecond
	checkInterval = 50 * time.Millisecond
	st := &vStallStore{KvStorage: memkv.NewKvStorage(), entered: make(chan struct{}, 1), release: make(chan struct{})}
	kv := &vUnknownOnce{KvStorage: st}
	b := NewBackend(kv, Config{Prefix: vPrefix, EnableEtcdCompatibility: true, WatchCacheSize: 4}, zzmodel.NoMetrics{}).(*backend)
	b.tso.Init(5)
	key := vNames[0]
	c, err := b.Create(vCtx(), &proto.CreateRequest{Key: key, Value: []byte("c")})
	zzverif.Assert(err == nil && c.Succeeded, "setup create")
	zzverif.WaitIdle()
	atomic.StoreInt32(&kv.armed, 1)
	_, err = b.Update(vCtx(), &proto.UpdateRequest{Kv: &proto.KeyValue{Key: key, Value: []byte("u"), Revision: c.Header.Revision}})
	zzverif.Assert(err != nil, "unknown outcome is reported as an error")
	zzverif.WaitIdle()
	zzverif.Assert(b.asyncFifoRetry.Size() == 1, "the unresolved write is queued for repair")
	atomic.StoreInt32(&st.stall, 1)
	zzverif.AdvanceClock()
	zzverif.FireTickers() // the repair loop ticks and reads the key: the engine does not answer
	zzverif.WaitIdle()
	select {
	case <-st.entered:
		zzverif.Cover("repair-read-stalled")
	default:
		zzverif.Assume(false) // (only the executions in which enough time has passed for the repair loop to act)
	}
	zzverif.ExpireDeadlines(2*unaryRpcTimeout + 500*time.Millisecond) // the repair's deadline passes
	zzverif.WaitIdle()
	close(st.release) // now the engine answers
	zzverif.WaitIdle()
	for i := 0; i < 3 && b.asyncFifoRetry.Size() > 0; i++ {
		zzverif.AdvanceClock()
		zzverif.FireTickers()
		zzverif.WaitIdle()
	}
	zzverif.Assert(b.asyncFifoRetry.Size() == 0, "the write is repaired once the engine answers again")
	g, err := b.Get(vCtx(), &proto.GetRequest{Key: key})
	zzverif.Assert(err == nil && g.Kv != nil, "the key is readable after the repair")
	cr, err := b.Create(vCtx(), &proto.CreateRequest{Key: vNames[3], Value: []byte("l")})
	zzverif.Assert(err == nil && cr.Succeeded, "a later create succeeds")
	zzverif.WaitIdle()
	zzverif.Assert(b.GetCurrentRevision() >= cr.Header.Revision, "requests keep flowing after the repair: a later write becomes readable")
	zzverif.Cover("done")
}
