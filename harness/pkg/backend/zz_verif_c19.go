//go:build verif

package backend

import (
	"context"

	proto "github.com/kubewharf/kubebrain-client/api/v2rpc"

	"github.com/kubewharf/kubebrain/pkg/zzverif"
)

// VerifC19HubOverflow (run with the race monitor): the fan-out drops a subscriber whose buffer is
// full while a new watch registers and an existing one is cancelled: the registry of subscribers
// is never touched without the hub's lock.
func VerifC19HubOverflow() {
	w := vNewWorld(1)
	slow := make(chan []*proto.Event, 1) // a subscriber that never reads: overflows on the second batch
	w.b.watcherHub.Lock()
	w.b.watcherHub.subs[slow] = struct{}{}
	w.b.watcherHub.Unlock()
	ctx, cancel := context.WithCancel(context.Background())
	_, err := w.b.Watch(ctx, "/r/", 0)
	zzverif.Assert(err == nil, "watch accepted")
	zzverif.WaitIdle()
	for i := 1; i <= 3; i++ {
		w.b.watchChan <- []*proto.Event{{Type: proto.Event_PUT, Revision: uint64(100 + i), Kv: &proto.KeyValue{Key: vNames[0], Value: []byte("v"), Revision: uint64(100 + i)}}}
	}
	done := make(chan struct{}, 2)
	zzverif.ExploreSchedules(zzverif.Param("preempt", 1))
	zzverif.Foreground("Stream")
	zzverif.Go("newwatch", func() {
		_, err := w.b.Watch(context.Background(), "/r/", 0)
		zzverif.Assert(err == nil, "second watch accepted")
		done <- struct{}{}
	})
	zzverif.Go("cancel", func() {
		cancel()
		done <- struct{}{}
	})
	<-done
	<-done
	zzverif.StopExploring()
	zzverif.WaitIdle()
	w.b.watcherHub.RLock()
	_, open := w.b.watcherHub.subs[slow]
	w.b.watcherHub.RUnlock()
	zzverif.Assert(!open, "the overflowing subscriber was dropped")
	zzverif.Cover("done")
}
