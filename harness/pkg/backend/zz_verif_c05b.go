//go:build verif

package backend

import (
	proto "github.com/kubewharf/kubebrain-client/api/v2rpc"

	"github.com/kubewharf/kubebrain/pkg/zzverif"
)

// VerifC05Fanout: several watches with different prefixes on one node and one broadcast batch of
// several events (what the sequencer sends when several revisions resolve together) whose keys are
// any mix of the watched prefixes: every watch receives exactly its own events, each once, in
// order, with key, value and revisions intact — whatever the other watches do with the batch.
func VerifC05Fanout() {
	w := vNewWorld(1)
	prefixes := []string{"/r/a/", "/r/ab", "/r/"}
	nw := zzverif.Param("watches", 2)
	chans := make([]<-chan []*proto.Event, nw)
	starts := make([]uint64, nw)
	for i := 0; i < nw; i++ {
		if i == nw-1 {
			// the last watch (the widest prefix) names a start revision inside the coming batch: the
			// batch straddles it (0 = no start revision)
			if c := zzverif.Choose("start", zzverif.Param("events", 4)+1); c > 0 {
				starts[i] = uint64(100 + c)
			}
		}
		ch, err := w.b.Watch(vCtx(), prefixes[i], starts[i])
		zzverif.Assert(err == nil, "watch accepted")
		chans[i] = ch
	}
	zzverif.WaitIdle()
	k := zzverif.Param("events", 4)
	type sent struct {
		key, val []byte
		rev      uint64
		del      bool
	}
	var all []sent
	batch := make([]*proto.Event, 0, k)
	for i := 0; i < k; i++ {
		tag := "e" + string(rune('0'+i))
		e := sent{key: vNames[zzverif.Choose(tag+".key", len(vNames))], val: zzverif.Bytes(tag+".val", 1), rev: uint64(101 + i), del: zzverif.Bool(tag + ".del")}
		all = append(all, e)
		if e.del {
			batch = append(batch, &proto.Event{Type: proto.Event_DELETE, Revision: e.rev, Kv: &proto.KeyValue{Key: e.key, Value: e.val, Revision: e.rev - 1}})
		} else {
			batch = append(batch, &proto.Event{Type: proto.Event_PUT, Revision: e.rev, Kv: &proto.KeyValue{Key: e.key, Value: e.val, Revision: e.rev}})
		}
	}
	w.b.watchChan <- batch
	zzverif.WaitIdle()
	for i := 0; i < nw; i++ {
		got, closed := vDrainEvents(chans[i])
		zzverif.Assert(!closed, "watch stays open")
		n := 0
		for _, e := range all {
			if !zzverif.HasPrefix(e.key, []byte(prefixes[i])) || e.rev < starts[i] {
				continue
			}
			zzverif.Assert(n < len(got), "every matching change is delivered")
			g := got[n]
			n++
			zzverif.Assert(g.Revision == e.rev, "matching changes arrive in revision order, each once")
			zzverif.Assert(zzverif.BytesEq(g.Kv.Key, e.key), "delivered event carries its own key")
			zzverif.Assert(zzverif.BytesEq(g.Kv.Value, e.val), "delivered event carries its own value")
			zzverif.Assert((g.Type == proto.Event_DELETE) == e.del, "delivered event carries its own type")
		}
		zzverif.Assert(n == len(got), "nothing outside the watched prefix and no duplicate is delivered")
		if n > 1 {
			zzverif.Cover("several-matching")
		}
		if n < len(all) {
			zzverif.Cover("some-filtered")
		}
	}
	zzverif.Cover("done")
}
