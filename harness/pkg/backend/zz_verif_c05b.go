//go:build verif

package backend

import (
	"sync/atomic"

	proto "github.com/kubewharf/kubebrain-client/api/v2rpc"
	"github.com/kubewharf/kubebrain/pkg/backend/tso"
	"github.com/kubewharf/kubebrain/pkg/zzmodel"

	"github.com/kubewharf/kubebrain/pkg/zzverif"
)

// VerifC05Fanout: several watches with different prefixes on one node and one broadcast batch of
// several events (what the sequencer sends when several revisions resolve together) whose keys are
// any mix of the watched prefixes: every watch receives exactly its own events, each once, in
// order, with key, value and revisions intact — whatever the other watches do with the batch.
func VerifC05Fanout() {
	w := vNewWorld(1)
	prefixes := []string{"/r/a/", "/r/ab", "/r/"}
	nw := zzverif.Param("watches", 2)
	chans := make([]<-chan []*proto.Event, nw)
	starts := make([]uint64, nw)
	for i := 0; i < nw; i++ {
		if i == nw-1 {
			// the last watch (the widest prefix) names a start revision inside the coming batch: the
			// batch straddles it (0 = no start revision)
			if c := zzverif.Choose("start", zzverif.Param("events", 4)+1); c > 0 {
				starts[i] = uint64(100 + c)
			}
		}
		ch, err := w.b.Watch(vCtx(), prefixes[i], starts[i])
		zzverif.Assert(err == nil, "watch accepted")
		chans[i] = ch
	}
	zzverif.WaitIdle()
	k := zzverif.Param("events", 4)
	type sent struct {
		key, val []byte
		rev      uint64
		del      bool
	}
	var all []sent
	batch := make([]*proto.Event, 0, k)
	for i := 0; i < k; i++ {
		tag := "e" + string(rune('0'+i))
		e := sent{key: vNames[zzverif.Choose(tag+".key", len(vNames))], val: zzverif.Bytes(tag+".val", 1), rev: uint64(101 + i), del: zzverif.Bool(tag + ".del")}
		all = append(all, e)
		if e.del {
			batch = append(batch, &proto.Event{Type: proto.Event_DELETE, Revision: e.rev, Kv: &proto.KeyValue{Key: e.key, Value: e.val, Revision: e.rev - 1}})
		} else {
			batch = append(batch, &proto.Event{Type: proto.Event_PUT, Revision: e.rev, Kv: &proto.KeyValue{Key: e.key, Value: e.val, Revision: e.rev}})
		}
	}
	w.b.watchChan <- batch
	zzverif.WaitIdle()
	for i := 0; i < nw; i++ {
		got, closed := vDrainEvents(chans[i])
		zzverif.Assert(!closed, "watch stays open")
		n := 0
		for _, e := range all {
			if !zzverif.HasPrefix(e.key, []byte(prefixes[i])) || e.rev < starts[i] {
				continue
			}
			zzverif.Assert(n < len(got), "every matching change is delivered")
			g := got[n]
			n++
			zzverif.Assert(g.Revision == e.rev, "matching changes arrive in revision order, each once")
			zzverif.Assert(zzverif.BytesEq(g.Kv.Key, e.key), "delivered event carries its own key")
			zzverif.Assert(zzverif.BytesEq(g.Kv.Value, e.val), "delivered event carries its own value")
			zzverif.Assert((g.Type == proto.Event_DELETE) == e.del, "delivered event carries its own type")
		}
		zzverif.Assert(n == len(got), "nothing outside the watched prefix and no duplicate is delivered")
		if n > 1 {
			zzverif.Cover("several-matching")
		}
		if n < len(all) {
			zzverif.Cover("some-filtered")
		}
	}
	zzverif.Cover("done")
}

// VerifC05Publish: one write has been stored and its result slot filled, but the sequencer has not
// looked at it yet; a watch registers (subscription, then cache read) while the sequencer
// publishes that write (event cache and broadcast) and the fan-out forwards it — every
// interleaving of the three within the delay bound. The watch is refused or delivers exactly the
// reference sequence: the publication order must leave no window in which an event is in neither
// source.
func VerifC05Publish() {
	ym := &zzmodel.YieldMetrics{}
	w := &vWorld{s: zzmodel.NewStore(), g: zzmodel.NewGhost(), nkeys: 1, base: 5, dealt: 5}
	w.b = vNewBackendFull(w.s, 5, zzverif.Param("cache", 8), func(t tso.TSO) tso.TSO { return t }, ym)
	w.vWriteSeq(zzverif.Param("before", 1))
	zzverif.WaitIdle()
	s := zzverif.U64("S")
	n := zzverif.Param("pending", 1)
	zzverif.Assume(zzverif.And(s > 0, s <= w.dealt+uint64(n)+1))
	w.vWriteSeq(n) // stored and notified; the sequencer runs only once this thread waits
	var ch <-chan []*proto.Event
	var werr error
	done := make(chan struct{}, 1)
	ym.Yield = zzverif.YieldAt
	zzverif.ExploreSchedules(zzverif.Param("preempt", 2))
	zzverif.Foreground("collectStorageWriteEvents")
	zzverif.Foreground("Stream")
	zzverif.Go("watch", func() {
		ch, werr = w.b.Watch(vCtx(), "/r/", s)
		done <- struct{}{}
	})
	<-done
	zzverif.StopExploring()
	ym.Yield = nil
	zzverif.WaitIdle()
	if werr != nil {
		zzverif.Cover("refused")
		return
	}
	got, closed := vDrainEvents(ch)
	zzverif.Assert(!closed, "watch of a consumer that keeps up stays open")
	w.checkEvents(got, 0, s, "/r/")
	zzverif.Cover("done")
}

// VerifC05PublishHeld: the same window, forced without relying on the scheduler: the harness
// holds the event cache's lock while the sequencer publishes one write (so the sequencer stops at
// the cache insertion — before or after the broadcast, whichever the code does first), lets a
// watch register and reach its cache read, then releases the lock; cache insertion and cache read
// then run in either order. The watch is refused or delivers exactly the reference sequence.
// (Natively the lock hand-over prefers the waiting reader, which is the order that matters.)
func VerifC05PublishHeld() {
	w := vNewWorld(1)
	w.vWriteSeq(zzverif.Param("before", 1))
	zzverif.WaitIdle()
	s := zzverif.U64("S")
	zzverif.Assume(zzverif.And(s > 0, s <= w.dealt+2))
	w.b.watchCache.Lock()
	w.vWriteSeq(1)
	zzverif.WaitIdle() // the sequencer is now waiting for the cache's lock
	var ch <-chan []*proto.Event
	var werr error
	done := make(chan struct{}, 1)
	zzverif.ExploreSchedules(1)
	zzverif.Foreground("collectStorageWriteEvents")
	zzverif.Go("watch", func() {
		ch, werr = w.b.Watch(vCtx(), "/r/", s)
		done <- struct{}{}
	})
	zzverif.WaitIdle() // the watch is subscribed and waits for the cache's lock (or was served without the cache)
	w.b.watchCache.Unlock()
	<-done
	zzverif.StopExploring()
	zzverif.WaitIdle()
	if werr != nil {
		zzverif.Cover("refused")
		return
	}
	got, closed := vDrainEvents(ch)
	zzverif.Assert(!closed, "watch of a consumer that keeps up stays open")
	w.checkEvents(got, 0, s, "/r/")
	zzverif.Cover("done")
}

// VerifC05BroadcastHeld: the other window of the hand-over, forced without the scheduler: the
// batch of one write is held between the event cache and the broadcast (a forwarding goroutine
// between the sequencer's output channel and the fan-out, released by the harness); a watch
// registers completely meanwhile — it is subscribed, finds the event in the cache and replays it —
// and then the broadcast of the same batch arrives. The watch is refused or delivers exactly the
// reference sequence (the event once).
func VerifC05BroadcastHeld() {
	var hold int32
	release := make(chan struct{}, 1)
	vStreamIn = func(src chan []*proto.Event) chan []*proto.Event {
		out := make(chan []*proto.Event, cap(src))
		go func() {
			for evs := range src {
				if atomic.LoadInt32(&hold) == 1 {
					<-release
				}
				out <- evs
			}
		}()
		return out
	}
	w := vNewWorldTSO(1, func(t tso.TSO) tso.TSO { return t })
	vStreamIn = nil
	w.vWriteSeq(zzverif.Param("before", 1))
	zzverif.WaitIdle()
	s := zzverif.U64("S")
	zzverif.Assume(zzverif.And(s > 0, s <= w.dealt+2))
	atomic.StoreInt32(&hold, 1)
	w.vWriteSeq(1)
	zzverif.WaitIdle() // the event is in the cache, its batch is held before the broadcast
	ch, werr := w.b.Watch(vCtx(), "/r/", s)
	zzverif.WaitIdle()
	atomic.StoreInt32(&hold, 0)
	release <- struct{}{}
	zzverif.WaitIdle()
	if werr != nil {
		zzverif.Cover("refused")
		return
	}
	got, closed := vDrainEvents(ch)
	zzverif.Assert(!closed, "watch of a consumer that keeps up stays open")
	w.checkEvents(got, 0, s, "/r/")
	zzverif.Cover("done")
}

// VerifC05CatchUp: the replay of a cached backlog into a watch's result channel (the real
// catchUpEvents on a channel of the real capacity), for backlog sizes around every boundary of
// its batching arithmetic (0, 1, one batch +-1, the channel's capacity in full batches +-1 and
// +-100, odd sizes beyond it, up to 40000 events): every event is handed over exactly once, in
// order, in non-empty batches, and the call never blocks on a full channel.
func VerifC05CatchUp() {
	sizes := []int{0, 1, eventBatchSize - 1, eventBatchSize, eventBatchSize + 1, 2*eventBatchSize - 1,
		resultChanLength*eventBatchSize - 1, resultChanLength * eventBatchSize, resultChanLength*eventBatchSize + 1,
		resultChanLength*eventBatchSize + 99, resultChanLength*eventBatchSize + 100, 34157, 39999}
	n := sizes[zzverif.Choose("backlog", len(sizes))]
	events := make([]*proto.Event, n)
	for i := range events {
		events[i] = &proto.Event{Revision: uint64(i + 1)}
	}
	out := make(chan []*proto.Event, resultChanLength)
	b := &backend{}
	b.catchUpEvents(out, events) // (a call that blocks for ever is reported as a deadlock)
	next := uint64(1)
	for len(out) > 0 {
		batch := <-out
		zzverif.Assert(len(batch) > 0 || n == 0, "catch-up: no empty batch")
		for _, e := range batch {
			zzverif.Assert(e.Revision == next, "catch-up: every cached event once, in order")
			next++
		}
	}
	zzverif.Assert(next == uint64(n)+1, "catch-up: the whole backlog is handed over")
	if n > resultChanLength*eventBatchSize {
		zzverif.Cover("backlog-beyond-full-batches")
	}
	zzverif.Cover("done")
}
