//go:build verif

package coder

import (
	"bytes"

	"github.com/kubewharf/kubebrain/pkg/zzverif"
)

// alphabet: every byte greater than the split byte '$' (documented precondition for ordering).
func c10Key(name string, n int, restrict bool) []byte {
	k := zzverif.Bytes(name, n)
	if restrict {
		for i := range k {
			zzverif.Assume(k[i] > splitByte)
		}
	}
	return k
}

// VerifC10Roundtrip: Decode(Encode(k,r)) == (k,r) for every byte string (all 256 values).
func VerifC10Roundtrip() {
	n := zzverif.Choose("len", zzverif.Param("keylen", 4)+1)
	k := c10Key("k", n, false)
	r := zzverif.U64("rev")
	c := NewNormalCoder()
	enc := c.EncodeObjectKey(k, r)
	zzverif.Assert(len(enc) == n+13, "encoded length")
	uk, rev, err := c.Decode(enc)
	zzverif.Assert(err == nil, "decode error on encoded key")
	zzverif.Assert(zzverif.BytesEq(uk, k), "decode returns the key")
	zzverif.Assert(rev == r, "decode returns the revision")
	// the index record of k is Encode(k,0) and is what EncodeRevisionKey gives
	zzverif.Assert(zzverif.BytesEq(c.EncodeRevisionKey(k), c.EncodeObjectKey(k, 0)), "revision key is Encode(k,0)")
	if n > 0 {
		zzverif.Cover("nonempty")
	} else {
		zzverif.Cover("empty")
	}
	zzverif.Observe("roundtrip", k, r, enc)
}

// VerifC10Order: encoded keys sort by (key, revision); the index record comes first.
func VerifC10Order() {
	max := zzverif.Param("keylen", 4)
	n1 := zzverif.Choose("len1", max+1)
	n2 := zzverif.Choose("len2", max+1)
	k1 := c10Key("k1", n1, true)
	k2 := c10Key("k2", n2, true)
	r1 := zzverif.U64("r1")
	r2 := zzverif.U64("r2")
	c := NewNormalCoder()
	cmp := bytes.Compare(c.EncodeObjectKey(k1, r1), c.EncodeObjectKey(k2, r2))
	keyLess := zzverif.BytesLess(k1, k2)
	keyEq := zzverif.BytesEq(k1, k2)
	wantLess := zzverif.Or(keyLess, zzverif.And(keyEq, r1 < r2))
	wantEq := zzverif.And(keyEq, r1 == r2)
	zzverif.Assert((cmp < 0) == wantLess, "order: less")
	zzverif.Assert((cmp == 0) == wantEq, "order: equal")
	// all versions of one key are contiguous with the index record first
	idx := c.EncodeObjectKey(k1, 0)
	zzverif.Assert(bytes.Compare(idx, c.EncodeObjectKey(k1, r1)) <= 0, "index record first")
	if n1 < n2 {
		zzverif.Cover("shorter-first")
	}
	if n1 == n2 {
		zzverif.Cover("same-length")
	}
	zzverif.Observe("order", k1, r1, k2, r2, cmp)
}

// VerifC10Range: start <= x < end  <=>  E(start,0) <= E(x,r) < E(end,0).
func VerifC10Range() {
	max := zzverif.Param("keylen", 4)
	ns := zzverif.Choose("lens", max+1)
	ne := zzverif.Choose("lene", max+1)
	nx := zzverif.Choose("lenx", max+1)
	s := c10Key("s", ns, true)
	e := c10Key("e", ne, true)
	x := c10Key("x", nx, true)
	r := zzverif.U64("r")
	c := NewNormalCoder()
	es, ee, ex := c.EncodeObjectKey(s, 0), c.EncodeObjectKey(e, 0), c.EncodeObjectKey(x, r)
	inRaw := zzverif.And(zzverif.Not(zzverif.BytesLess(x, s)), zzverif.BytesLess(x, e))
	inEnc := zzverif.And(bytes.Compare(es, ex) <= 0, bytes.Compare(ex, ee) < 0)
	zzverif.Assert(inRaw == inEnc, "range enclosure")
	zzverif.Cover("range")
	zzverif.Observe("range", s, e, x, r, inRaw)
}

// VerifC10ParseRevision: ParseRevision on every length 0..10.
func VerifC10ParseRevision() {
	n := zzverif.Choose("len", 11)
	b := zzverif.Bytes("b", n)
	rev, del, err := ParseRevision(b)
	switch n {
	case 8, 9:
		zzverif.Assert(err == nil, "parse ok")
		zzverif.Assert(del == (n == 9), "deletion flag")
		var want uint64
		for i := 0; i < 8; i++ {
			want = want<<8 | uint64(b[i])
		}
		zzverif.Assert(rev == want, "parsed revision")
		zzverif.Cover("parsed")
	default:
		zzverif.Assert(err == ErrInvalidRevFormat, "invalid length rejected")
		zzverif.Cover("rejected")
	}
	zzverif.Observe("parse", b, rev, del, err != nil)
}

// VerifC10DecodeSafe: Decode never panics on any buffer of length >= 13 and accepts exactly
// the buffers with the magic prefix and the split byte.
func VerifC10DecodeSafe() {
	n := 13 + zzverif.Choose("extra", zzverif.Param("keylen", 4)+1)
	b := zzverif.Bytes("b", n)
	c := NewNormalCoder()
	uk, rev, err := c.Decode(b)
	wellFormed := zzverif.And(zzverif.BytesEq(b[:4], magicBytes), b[n-9] == splitByte)
	zzverif.Assert((err == nil) == wellFormed, "decode accepts exactly well-formed keys")
	if err == nil {
		zzverif.Assert(zzverif.BytesEq(c.EncodeObjectKey(uk, rev), b), "encode(decode(b)) == b")
		zzverif.Cover("accepted")
	} else {
		zzverif.Cover("rejected")
	}
	zzverif.Observe("decode", b, err != nil)
}
