//go:build verif

package backend

import (
	"context"
	"sync"

	proto "github.com/kubewharf/kubebrain-client/api/v2rpc"

	"github.com/kubewharf/kubebrain/pkg/backend/tso"
	"github.com/kubewharf/kubebrain/pkg/zzmodel"
	"github.com/kubewharf/kubebrain/pkg/zzverif"
)

// vWatchTSO observes every advance of the readable (committed) revision.
type vWatchTSO struct {
	tso.TSO
	onCommit func(rev uint64)
}

func (t *vWatchTSO) Commit(rev uint64) {
	t.onCommit(rev)
	t.TSO.Commit(rev)
}

func (t *vWatchTSO) Deal() (uint64, error) {
	zzverif.YieldAt("deal")
	defer zzverif.YieldAt("deal-done")
	return t.TSO.Deal()
}

// opRev extracts the revision a write batch is stamped with (from its version record).
func (w *vWorld) opRev(ops []zzmodel.Op) uint64 {
	var rev uint64
	for _, op := range ops {
		if len(op.Key) >= 13 {
			_, r, err := w.b.coder.Decode(op.Key)
			if err == nil && r > rev {
				rev = r
			}
		}
	}
	return rev
}

// VerifC04Resolve: concurrent writes with every mix of outcomes (success, failed condition,
// storage error, unknown outcome, future expected revision). Safety: the readable revision never
// reaches the revision of a write whose storage transaction has not finished. Progress: once
// all requests returned it reaches the highest revision handed out, and a later write becomes
// readable.
func VerifC04Resolve() {
	var open []uint64 // revisions of storage transactions in progress
	watch := &vWatchTSO{onCommit: func(c uint64) {
		for _, r := range open {
			zzverif.Assert(r > c, "the readable revision never reaches a write whose storage transaction has not finished")
		}
	}}
	w := vNewWorldTSO(zzverif.Param("keys", 1), func(t tso.TSO) tso.TSO { watch.TSO = t; return watch })
	w.history()
	w.s.OnBegin = func(ops []zzmodel.Op) {
		if r := w.opRev(ops); r != 0 {
			// a storage transaction that only starts now has not finished either
			zzverif.Assert(r > w.b.GetCurrentRevision(), "the readable revision never reaches a write whose storage transaction has not finished")
			open = append(open, r)
		}
	}
	w.s.OnCommit = func(ops []zzmodel.Op, err error) {
		r := w.opRev(ops)
		for i := range open {
			if open[i] == r {
				open = append(open[:i:i], open[i+1:]...)
				break
			}
		}
	}
	w.s.Yield = zzverif.YieldAt
	nf := 0
	maxf := zzverif.Param("faults", 1)
	w.s.FaultAt = func(kind string, n int) zzmodel.Fault {
		if kind != "commit" || nf >= maxf {
			return zzmodel.FaultNone
		}
		f := zzmodel.Fault(zzverif.Choose("fault", 4))
		if f != zzmodel.FaultNone {
			nf++
			zzverif.Cover("storage-fault")
		}
		return f
	}
	n := zzverif.Param("clients", 2)
	reqs := make([]*vReq, n)
	for i := range reqs {
		reqs[i] = w.newReq("c" + string(rune('0'+i)))
	}
	// a client may go away (or its deadline may pass) at any moment of its request
	var cancels []context.CancelFunc
	if zzverif.Param("cancels", 0) == 1 {
		for _, r := range reqs {
			ctx, cancel := context.WithCancel(vCtx())
			r.ctx = ctx
			cancels = append(cancels, cancel)
		}
	}
	var wg sync.WaitGroup
	wg.Add(n)
	zzverif.ExploreSchedules(zzverif.Param("preempt", 1))
	if zzverif.Param("sequencer", 1) == 1 {
		zzverif.Foreground("collectStorageWriteEvents")
	}
	for i := range reqs {
		r := reqs[i]
		zzverif.Go("c"+string(rune('0'+i)), func() {
			w.issue(r)
			wg.Done()
		})
	}
	if len(cancels) > 0 {
		who := zzverif.Choose("cancelWho", n)
		wg.Add(1)
		zzverif.Go("canceller", func() {
			cancels[who]()
			zzverif.Cover("client-gone")
			wg.Done()
		})
	}
	wg.Wait()
	zzverif.StopExploring()
	w.s.Yield, w.s.FaultAt = nil, nil
	w.dealt += uint64(n)
	zzverif.WaitIdle()
	zzverif.Assert(w.b.GetCurrentRevision() == w.dealt, "once all requests returned the readable revision reaches the highest revision handed out")
	for _, r := range reqs {
		if r.err {
			zzverif.Cover("request-error")
		}
	}
	// no request can prevent later writes from becoming readable: a fresh create is readable
	w.s.OnBegin, w.s.OnCommit = nil, nil
	key := vNames[3]
	val := zzverif.Bytes("late", 1)
	w.g = zzmodel.NewGhost()
	rev := w.create("late", key)
	zzverif.WaitIdle()
	zzverif.Assert(w.b.GetCurrentRevision() == rev, "a later write becomes readable")
	_ = val
	w.checkGet(key, 0)
	// ... also 100000 revisions later, when the sequencer comes back to the slots of the pending-event
	// ring used above (it trusts whatever it finds in slot (readable+1) mod 100000). The numbering is
	// moved forward the way a follower's revision sync or a leader change moves it.
	for f := w.base + 1; f <= w.dealt; f++ {
		w.b.SetCurrentRevision(f + watchersChanCapacity - 1)
		zzverif.WaitIdle()
		zzverif.Assert(w.b.GetCurrentRevision() == f+watchersChanCapacity-1, "the readable revision does not fall back when the pending-event ring wraps onto the slot of an earlier request")
	}
	w.dealt += watchersChanCapacity - 1
	rev = w.create("wrapped", vNames[2])
	zzverif.WaitIdle()
	zzverif.Assert(w.b.GetCurrentRevision() == rev, "a write issued after the ring wrapped becomes readable")
	zzverif.Cover("done")
}

// VerifC04HeldWrite: a node built by the real NewBackend with a small event cache (the
// configuration is symbolic-free but unusual: 2..3 entries); the storage transaction of one write
// is held (forced by the harness, no scheduler involved) while 3 later writes to other keys are
// stored and acknowledged: the readable revision stays below the held write, and once it is
// released everything becomes readable and watchable, in order.
func VerifC04HeldWrite() {
	w := vNewWorld(1)
	hold := make(chan struct{})
	var heldRev uint64
	first := true
	w.s.OnBegin = func(ops []zzmodel.Op) {
		if first {
			first = false
			heldRev = w.opRev(ops)
			<-hold
		}
	}
	ch, err := w.b.Watch(vCtx(), "/r/", 0)
	zzverif.Assert(err == nil, "watch without start revision is accepted")
	hval := zzverif.Bytes("held.val", 1)
	done := make(chan uint64, 1)
	go func() {
		resp, err := w.b.Create(vCtx(), &proto.CreateRequest{Key: vNames[0], Value: hval})
		zzverif.Assert(err == nil && resp.Succeeded, "held create succeeds in the end")
		done <- resp.Header.Revision
	}()
	zzverif.WaitIdle() // the write has its revision and is stuck in the engine
	w.dealt++
	zzverif.Assert(heldRev == w.dealt, "the held write was stamped")
	n := zzverif.Param("later", 3)
	for i := 0; i < n; i++ {
		w.create("l"+string(rune('0'+i)), vNames[1+i%3])
		zzverif.WaitIdle()
		zzverif.Assert(w.b.GetCurrentRevision() < heldRev, "the readable revision never reaches a write whose storage transaction has not finished")
	}
	got, _ := vDrainEvents(ch)
	zzverif.Assert(len(got) == 0, "nothing is announced beyond a write whose storage transaction has not finished")
	close(hold)
	rev := <-done
	zzverif.Assert(rev == heldRev, "held create: header carries its revision")
	zzverif.WaitIdle()
	zzverif.Assert(w.b.GetCurrentRevision() == w.dealt, "once all requests returned the readable revision reaches the highest revision handed out")
	w.g.Append(vNames[0], heldRev, hval, false)
	w.evs = append([]vEvent{{proto.Event_CREATE, vNames[0], hval, heldRev, heldRev}}, w.evs...)
	got, closed := vDrainEvents(ch)
	zzverif.Assert(!closed, "watch of a consumer that keeps up stays open")
	w.checkEvents(got, 0, 0, "/r/")
	for i := 0; i < 4; i++ {
		w.checkGet(vNames[i], 0)
	}
	zzverif.Cover("done")
}
