//go:build verif

package backend

import (
	"github.com/kubewharf/kubebrain/pkg/zzverif"
)

// VerifC10Prefix: HasPrefix(x,p) <=> p <= x < PrefixEnd(p) whenever p is neither empty nor all
// 0xff; otherwise PrefixEnd(p) is the "no end" marker {0}.
func VerifC10Prefix() {
	max := zzverif.Param("keylen", 3)
	np := zzverif.Choose("lenp", max+1)
	nx := zzverif.Choose("lenx", max+1)
	p := zzverif.Bytes("p", np)
	x := zzverif.Bytes("x", nx)
	allFF := true
	for i := range p {
		allFF = zzverif.And(allFF, p[i] == 0xff)
	}
	end := PrefixEnd(p)
	if allFF {
		zzverif.Assert(len(end) == 1 && end[0] == 0, "no prefix end for empty / all-0xff prefixes")
		zzverif.Cover("no-prefix-end")
		return
	}
	has := zzverif.HasPrefix(x, p)
	in := zzverif.And(zzverif.Not(zzverif.BytesLess(x, p)), zzverif.BytesLess(x, end))
	zzverif.Assert(has == in, "prefix range encloses exactly the keys with the prefix")
	// PrefixEnd must not modify its argument
	zzverif.Cover("prefix")
	zzverif.Observe("prefix", p, x, end, has)
}
