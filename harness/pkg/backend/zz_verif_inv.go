//go:build verif

package backend

import (
	proto "github.com/kubewharf/kubebrain-client/api/v2rpc"

	"github.com/kubewharf/kubebrain/pkg/backend/coder"
	"github.com/kubewharf/kubebrain/pkg/zzverif"
)

// vInvariant decodes the store and asserts the representation invariant INV for one key:
// version revisions strictly increase and are at most `dealt`; no two adjacent deletion marks;
// index record live (8 bytes) => the newest version has that revision and is not a deletion mark;
// index record deleted (9 bytes) => the newest version is a deletion mark with that revision;
// index record absent => no versions, or the newest version is a deletion mark (an interrupted
// compaction removes the index first).
func (w *vWorld) vInvariant(key []byte, when string) {
	var idx []byte
	hasIdx := false
	var last uint64
	lastDel, n := false, 0
	for _, e := range w.s.Ents {
		uk, rev, err := w.b.coder.Decode(e.Key)
		if err != nil || !zzverif.BytesEq(uk, key) {
			continue
		}
		if rev == 0 {
			idx, hasIdx = e.Val, true
			continue
		}
		zzverif.Assert(rev > last && rev <= w.dealt, when+": version revisions increase and are at most the highest revision handed out")
		del := zzverif.BytesEq(e.Val, tombStoneBytes)
		// (the repair of an unresolved delete writes its deletion mark again at a new revision)
		zzverif.Assert(!(del && lastDel) || w.marksMayRepeat, when+": no two adjacent deletion marks")
		last, lastDel = rev, del
		n++
	}
	if hasIdx {
		r, isDel, err := coder.ParseRevision(idx)
		zzverif.Assert(err == nil, when+": index record is 8 or 9 bytes")
		zzverif.Assert(n > 0 && r == last, when+": the index record names the newest version")
		zzverif.Assert(isDel == lastDel, when+": the index record's deletion flag agrees with the newest version")
	} else {
		zzverif.Assert(n == 0 || lastDel, when+": without index record there is no live newest version")
	}
}

// vArbitraryState writes an arbitrary store state that satisfies the representation invariant
// directly into the engine: key vNames[0] with 0..maxversions versions (symbolic revisions below
// the revision base and symbolic values, deletion marks anywhere but adjacent, the index record in
// each form the invariant allows), a second live key, and any compaction record. The reference
// model is filled accordingly.
func (w *vWorld) vArbitraryState() {
	key := vNames[0]
	m := zzverif.Choose("versions", zzverif.Param("maxversions", 3)+1)
	var prev uint64
	prevDel := false
	for i := 0; i < m; i++ {
		tag := "v" + string(rune('0'+i))
		r := zzverif.U64(tag + ".rev")
		zzverif.Assume(zzverif.And(r > prev, r < w.base))
		prev = r
		del := zzverif.Choose(tag+".del", 2) == 1
		if del && prevDel {
			zzverif.Assume(false) // a delete of a deleted key is refused: marks are never adjacent
		}
		if del {
			w.s.RawPut(w.b.coder.EncodeObjectKey(key, r), tombStoneBytes)
			w.g.Append(key, r, nil, true)
		} else {
			val := zzverif.Bytes(tag+".val", 1)
			w.s.RawPut(w.b.coder.EncodeObjectKey(key, r), val)
			w.g.Append(key, r, val, false)
		}
		prevDel = del
	}
	if m > 0 {
		if !prevDel {
			w.s.RawPut(w.b.coder.EncodeRevisionKey(key), uint64ToBytes(prev))
		} else if zzverif.Choose("indexOfDeleted", 2) == 1 {
			w.s.RawPut(w.b.coder.EncodeRevisionKey(key), append(uint64ToBytes(prev), 0))
		} else {
			zzverif.Cover("index-absent-over-deletion-mark")
		}
	}
	// a second, live key (one version at the highest revision) so that limited lists have a next key
	other := vNames[3]
	oval := zzverif.Bytes("other.val", 1)
	w.s.RawPut(w.b.coder.EncodeObjectKey(other, w.base), oval)
	w.s.RawPut(w.b.coder.EncodeRevisionKey(other), uint64ToBytes(w.base))
	w.g.Append(other, w.base, oval, false)
	if c := zzverif.U64("record"); c != 0 {
		zzverif.Assume(c <= w.base)
		w.s.RawPut(getCompactKey(vPrefix), uint64ToBytes(c))
		w.floor = c
	}
}

// VerifInductiveStep: ONE operation (create / update / delete with symbolic arguments, or a
// compaction at a symbolic revision) from an ARBITRARY store state of one key that satisfies the
// representation invariant (0..3 versions with symbolic revisions and values, deletion marks
// anywhere but adjacent, next to a second live key, the index record in each form the invariant allows, any compaction
// record): the operation's outcome agrees with the reference chain semantics, reads at every
// revision from the floor up return the MVCC snapshot, and the invariant holds again — so the
// write and read lemmas extend from the bounded histories to histories of any length.
func VerifInductiveStep() {
	w := vNewWorld(1)
	key := vNames[0]
	w.vArbitraryState()
	w.vInvariant(key, "pre-state")

	// one step
	// stepkind: 0 = any step, 1 = a write, 2 = a compaction
	sk := zzverif.Param("stepkind", 0)
	if sk == 2 || (sk == 0 && zzverif.Choose("step", 4) == 3) {
		c2 := zzverif.U64("c")
		if ok, _ := w.compact(c2); ok {
			zzverif.Cover("compacted")
		}
	} else {
		w.step()
	}
	zzverif.WaitIdle()
	w.vInvariant(key, "post-state")

	// reads from the floor up return the snapshot
	r := zzverif.U64("R")
	zzverif.Assume(zzverif.Or(r == 0, zzverif.And(r >= w.floor, r <= w.dealt)))
	zzverif.Assume(zzverif.Or(r == 0, r >= 1))
	w.checkGet(key, r)
	rg := vRanges[0]
	w.checkList(rg[0], rg[1], r, 0)
	w.checkList(rg[0], rg[1], r, 1+zzverif.Choose("limit", 2))
	zzverif.Cover("done")
}

var _ = proto.Event_PUT
