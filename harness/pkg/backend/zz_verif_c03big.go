//go:build verif

package backend

import (
	proto "github.com/kubewharf/kubebrain-client/api/v2rpc"

	"github.com/kubewharf/kubebrain/pkg/zzmodel"
	"github.com/kubewharf/kubebrain/pkg/zzverif"
)

// VerifC03BigList: a limited list over a large directory (10003 live keys, concrete) with limits
// around the directory's size, around ten thousand and far beyond: the result is the first
// min(limit, n) keys in order, and the more-flag is set exactly when the limit cut it short. (The
// histories of the other C03 harnesses hold a handful of keys; anything that depends on a page
// size is out of their reach.)
func VerifC03BigList() {
	n := zzverif.Param("bigkeys", 10003)
	s := zzmodel.NewStore()
	b := vNewBackend(s, 5, 4)
	name := func(i int) []byte {
		k := []byte("/r/k00000")
		for p := len(k) - 1; i > 0; p-- {
			k[p] = byte('0' + i%10)
			i /= 10
		}
		return k
	}
	for i := 0; i < n; i++ {
		k := name(i)
		s.Ents = append(s.Ents, zzmodel.Ent{Key: b.coder.EncodeRevisionKey(k), Val: uint64ToBytes(3)},
			zzmodel.Ent{Key: b.coder.EncodeObjectKey(k, 3), Val: []byte{'v'}})
	}
	limits := []int64{500, 9999, 10000, 10001, int64(n) - 1, int64(n), int64(n) + 1, 1 << 40}
	limit := limits[zzverif.Choose("limit", len(limits))]
	resp, err := b.List(vCtx(), &proto.RangeRequest{Key: vRanges[0][0], End: vRanges[0][1], Limit: limit})
	zzverif.Assert(err == nil, "list: no error")
	want := n
	if limit < int64(n) {
		want = int(limit)
	}
	zzverif.Assert(len(resp.Kvs) == want, "list: number of kvs")
	zzverif.Assert(resp.More == (int64(n) > limit), "list: more flag")
	for i, kv := range resp.Kvs {
		zzverif.Assert(string(kv.Key) == string(name(i)) && kv.Revision == 3, "list: key order")
	}
	if resp.More {
		zzverif.Cover("list-cut")
	}
	if limit > int64(n) {
		zzverif.Cover("limit-beyond")
	}
	zzverif.Cover("done")
}
