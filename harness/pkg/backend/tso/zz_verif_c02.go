//go:build verif

package tso

import (
	"sync"

	"github.com/kubewharf/kubebrain/pkg/zzverif"
)

// VerifC02TSO: concurrent Deal ∥ Deal ∥ Commit(r) on the real revision generator, every
// interleaving of its atomic operations: dealt revisions are pairwise distinct, greater than
// the start value and than every committed revision that was visible before the deal.
func VerifC02TSO() {
	t := NewTSO()
	start := zzverif.U64("start")
	zzverif.Assume(start < 1<<62)
	t.Init(start)
	// a node that has just become leader: its counter was moved to the lock's timestamp (any
	// value, above or below what it had) before the first write is let in
	floor := start
	if zzverif.Param("leaderstart", 0) == 1 {
		v := zzverif.U64("leaderStartRevision")
		zzverif.Assume(v < 1<<62)
		t.Commit(v)
		if v > floor {
			floor = v
			zzverif.Cover("counter-moved-forward")
		}
	}
	n := zzverif.Param("dealers", 2)
	revs := make([]uint64, n)
	var wg sync.WaitGroup
	wg.Add(n + 1)
	zzverif.ExploreSchedules(zzverif.Param("preempt", 2))
	for i := 0; i < n; i++ {
		i := i
		zzverif.Go("d"+string(rune('0'+i)), func() {
			r, err := t.Deal()
			zzverif.Assert(err == nil, "deal never fails")
			revs[i] = r
			wg.Done()
		})
	}
	c := zzverif.U64("c")
	zzverif.Assume(c <= start) // the sequencer only commits revisions that were dealt
	zzverif.Go("commit", func() {
		t.Commit(c)
		wg.Done()
	})
	wg.Wait()
	zzverif.StopExploring()
	for i := 0; i < n; i++ {
		zzverif.Assert(revs[i] > floor, "dealt revision above the start value and above the revision the node started leading at")
		for j := i + 1; j < n; j++ {
			zzverif.Assert(revs[i] != revs[j], "no two attempts receive the same revision")
		}
	}
	r, _ := t.Deal()
	for i := 0; i < n; i++ {
		zzverif.Assert(r > revs[i], "a deal that begins after another returned gets the larger revision")
	}
	zzverif.Cover("done")
}
