//go:build verif

package backend

import (
	"strconv"

	proto "github.com/kubewharf/kubebrain-client/api/v2rpc"

	"github.com/kubewharf/kubebrain/pkg/backend/tso"
	"github.com/kubewharf/kubebrain/pkg/zzmodel"
	"github.com/kubewharf/kubebrain/pkg/zzverif"
)

// vWorld couples the real backend (over the contract store) with the reference model.
type vWorld struct {
	s     *zzmodel.Store
	b     *backend
	g     *zzmodel.Ghost
	nkeys int
	base  uint64 // revision counter base: every revision dealt in the run is > base
	dealt uint64 // highest revision dealt so far (concrete)
	floor uint64
	nops  int
	evs   []vEvent // reference event log: one entry per successful write, in revision order
	// marksMayRepeat relaxes the invariant's "no two adjacent deletion marks" clause
	marksMayRepeat bool
}

// vEvent is what a watcher must see for one successful write.
type vEvent struct {
	typ   proto.Event_EventType
	key   []byte
	val   []byte // for deletes: the previous value
	rev   uint64
	kvRev uint64 // for deletes: the previous modification revision
}

var vBases = []uint64{5, 99998, 1<<40 + 7, 1<<63 - 3}

func vNewWorld(nkeys int) *vWorld { return vNewWorldTSO(nkeys, nil) }

// vNewWorldTSO is vNewWorld with the revision generator wrapped from the start.
func vNewWorldTSO(nkeys int, wrap func(tso.TSO) tso.TSO) *vWorld {
	base := vBases[zzverif.Choose("base", zzverif.Param("bases", 1))]
	s := zzmodel.NewStore()
	s.LooseReverseFirst = zzverif.Bool("looseReverse")
	s.BareCASError = zzverif.Bool("bareCAS")
	w := &vWorld{s: s, g: zzmodel.NewGhost(), nkeys: nkeys, base: base, dealt: base}
	if wrap != nil {
		w.b = vNewBackendTSO(s, base, zzverif.Param("cache", 8), wrap)
	} else {
		w.b = vNewBackend(s, base, zzverif.Param("cache", 8))
	}
	return w
}

// newLeader replaces the node by a fresh one on the same store whose revision starts at the highest
// revision handed out (a leader change or restart: the event cache of the new node is empty).
func (w *vWorld) newLeader() {
	zzverif.WaitIdle()
	w.b = vNewBackend(w.s, w.dealt, zzverif.Param("cache", 8))
	zzverif.Cover("new-leader")
}

// val draws a non-empty value: one symbolic byte, or nine (which may equal the reserved marker).
func vVal(tag string) []byte {
	// val9: 0 = one-byte values only, 1 = the first write may carry nine bytes, 2 = every write may
	v9 := zzverif.Param("val9", 1)
	if (v9 == 2 || (v9 == 1 && tag == "op0.val")) && zzverif.Choose(tag+".len9", 2) == 1 {
		v := zzverif.Bytes(tag, 9)
		zzverif.Finding("value_is_reserved_marker", zzverif.BytesEq(v, tombStoneBytes))
		return v
	}
	return zzverif.Bytes(tag, 1)
}

func (w *vWorld) key(tag string) []byte { return vNames[zzverif.Choose(tag+".key", w.nkeys)] }

// step performs one nondeterministic write through the real API and checks its outcome
// against the reference model. It returns the revision stamped on the attempt.
func (w *vWorld) step() uint64 {
	tag := "op" + strconv.Itoa(w.nops)
	w.nops++
	kind := zzverif.Choose(tag+".kind", 3)
	key := w.key(tag)
	var rev uint64
	switch kind {
	case 0:
		rev = w.create(tag, key)
	case 1:
		rev = w.update(tag, key)
	default:
		rev = w.del(tag, key)
	}
	zzverif.WaitIdle()
	zzverif.Assert(w.b.GetCurrentRevision() == w.dealt, "committed revision reaches the highest dealt revision")
	return rev
}

func (w *vWorld) create(tag string, key []byte) uint64 {
	val := vVal(tag + ".val")
	want := w.g.CanCreate(key)
	resp, err := w.b.Create(vCtx(), &proto.CreateRequest{Key: key, Value: val})
	w.dealt++
	zzverif.Assert(err == nil, "create: no error")
	zzverif.Assert(resp.Succeeded == want, "create: succeeds exactly when the key is absent or deleted")
	rev := resp.Header.Revision
	zzverif.Assert(rev == w.dealt, "create: header carries the dealt revision")
	if want {
		w.g.Append(key, rev, val, false)
		w.evs = append(w.evs, vEvent{proto.Event_CREATE, key, val, rev, rev})
		zzverif.Cover("create-ok")
	} else {
		zzverif.Cover("create-refused")
	}
	return rev
}

func (w *vWorld) update(tag string, key []byte) uint64 {
	val := vVal(tag + ".val")
	exp := zzverif.U64(tag + ".exp")
	newest, have := w.g.Newest(key)
	var want bool
	if exp == 0 {
		want = w.g.CanCreate(key)
	} else {
		want = have && !newest.Del && newest.Rev == exp
	}
	future := exp > w.dealt+1
	resp, err := w.b.Update(vCtx(), &proto.UpdateRequest{Kv: &proto.KeyValue{Key: key, Value: val, Revision: exp}})
	w.dealt++
	if err != nil {
		zzverif.Assert(future, "update: error only for an expectation above every issued revision")
		zzverif.Cover("update-future")
		return 0
	}
	zzverif.Assert(resp.Succeeded == want, "update: succeeds exactly when the expectation matches")
	rev := resp.Header.Revision
	if want {
		zzverif.Assert(rev == w.dealt, "update: header carries the dealt revision")
		w.g.Append(key, rev, val, false)
		if exp == 0 {
			w.evs = append(w.evs, vEvent{proto.Event_CREATE, key, val, rev, rev})
		} else {
			w.evs = append(w.evs, vEvent{proto.Event_PUT, key, val, rev, rev})
		}
		zzverif.Cover("update-ok")
	} else {
		zzverif.Cover("update-refused")
		cur, live := w.g.At(key, 0)
		if live {
			zzverif.Assert(resp.Kv != nil, "update refused: current kv returned")
			zzverif.Assert(zzverif.BytesEq(resp.Kv.Value, cur.Val), "update refused: current value")
			zzverif.Assert(resp.Kv.Revision == cur.Rev, "update refused: current revision")
			zzverif.Assert(resp.Header.Revision >= resp.Kv.Revision, "update refused: header >= kv revision")
		} else {
			zzverif.Assert(resp.Kv == nil, "update refused: no kv for an absent key")
		}
	}
	return rev
}

func (w *vWorld) del(tag string, key []byte) uint64 {
	exp := zzverif.U64(tag + ".exp")
	newest, have := w.g.Newest(key)
	live := have && !newest.Del
	want := live && (exp == 0 || newest.Rev == exp)
	future := exp > w.dealt+1
	resp, err := w.b.Delete(vCtx(), &proto.DeleteRequest{Key: key, Revision: exp})
	w.dealt++
	if err != nil {
		zzverif.Assert(future, "delete: error only for an expectation above every issued revision")
		zzverif.Cover("delete-future")
		return 0
	}
	zzverif.Assert(resp.Succeeded == want, "delete: succeeds exactly when the key is live and the expectation matches")
	rev := resp.Header.Revision
	if want {
		zzverif.Assert(rev == w.dealt, "delete: header carries the dealt revision")
		zzverif.Assert(resp.Kv != nil, "delete: previous kv returned")
		zzverif.Assert(zzverif.BytesEq(resp.Kv.Value, newest.Val), "delete: previous value")
		zzverif.Assert(resp.Kv.Revision == newest.Rev, "delete: previous revision")
		w.g.Append(key, rev, nil, true)
		w.evs = append(w.evs, vEvent{proto.Event_DELETE, key, newest.Val, rev, newest.Rev})
		zzverif.Cover("delete-ok")
	} else if live {
		zzverif.Cover("delete-refused")
		zzverif.Assert(resp.Kv != nil, "delete refused: current kv returned")
		zzverif.Assert(zzverif.BytesEq(resp.Kv.Value, newest.Val), "delete refused: current value")
		zzverif.Assert(resp.Kv.Revision == newest.Rev, "delete refused: current revision")
		zzverif.Assert(resp.Header.Revision >= resp.Kv.Revision, "delete refused: header >= kv revision")
	} else {
		zzverif.Cover("delete-absent")
	}
	return rev
}

// ---- reads against the reference model ----

var vBounds = [][]byte{[]byte("/r/"), []byte("/r/a"), []byte("/r/a-b"), []byte("/r/a-c"), []byte("/r/a/"), []byte("/r/a/b"), []byte("/r/a0"), []byte("/r/ab"), []byte("/r/ac"), []byte("/r0")}

func (w *vWorld) checkGet(key []byte, r uint64) {
	resp, err := w.b.Get(vCtx(), &proto.GetRequest{Key: key, Revision: r})
	zzverif.Assert(err == nil, "get: no error")
	v, ok := w.g.At(key, r)
	if ok {
		zzverif.Assert(resp.Kv != nil, "get: live version returned")
		zzverif.Assert(zzverif.BytesEq(resp.Kv.Key, key), "get: key")
		zzverif.Assert(zzverif.BytesEq(resp.Kv.Value, v.Val), "get: value byte for byte")
		zzverif.Assert(resp.Kv.Revision == v.Rev, "get: modification revision")
		zzverif.Assert(resp.Header.Revision >= v.Rev, "get: header >= kv revision")
		zzverif.Cover("get-present")
	} else {
		zzverif.Assert(resp.Kv == nil, "get: nothing for an absent or deleted key")
		zzverif.Cover("get-absent")
	}
}

func (w *vWorld) checkList(start, end []byte, r uint64, limit int) {
	resp, err := w.b.List(vCtx(), &proto.RangeRequest{Key: start, End: end, Revision: r, Limit: int64(limit)})
	zzverif.Assert(err == nil, "list: no error")
	want, more := w.g.List(start, end, r, limit)
	zzverif.Assert(len(resp.Kvs) == len(want), "list: number of kvs")
	zzverif.Assert(resp.More == more, "list: more flag")
	for i := range want {
		zzverif.Assert(zzverif.BytesEq(resp.Kvs[i].Key, want[i].Key), "list: key order")
		zzverif.Assert(zzverif.BytesEq(resp.Kvs[i].Value, want[i].Val), "list: value")
		zzverif.Assert(resp.Kvs[i].Revision == want[i].Rev, "list: modification revision")
		zzverif.Assert(resp.Header.Revision >= want[i].Rev || r > resp.Header.Revision, "list: header >= kv revision")
	}
	if more {
		zzverif.Cover("list-cut")
	}
	if len(want) > 1 {
		zzverif.Cover("list-multi")
	}
}

func (w *vWorld) checkCount(start, end []byte) {
	resp, err := w.b.Count(vCtx(), &proto.CountRequest{Key: start, End: end})
	zzverif.Assert(err == nil, "count: no error")
	zzverif.Assert(int(resp.Count) == w.g.Count(start, end, 0), "count: number of live keys")
}

// readRev draws a read revision: 0 (latest) or any revision in [first, committed].
func (w *vWorld) readRev(tag string) uint64 {
	r := zzverif.U64(tag)
	zzverif.Assume(zzverif.Or(r == 0, zzverif.And(r > w.base, r <= w.dealt)))
	return r
}

var vRanges = [][2][]byte{
	{[]byte("/r/"), []byte("/r0")},      // the whole prefix
	{[]byte("/r/a"), []byte("/r/a0")},   // a, a-b, a/b (not ab? ab > a0: excluded)
	{[]byte("/r/a/"), []byte("/r/a0")},  // the directory a/
	{[]byte("/r/a-b"), []byte("/r/ab")}, // between two keys: a-b, a/b
	{[]byte("/r/a"), []byte("/r/a/b")},  // end exclusive on a stored key
}

func (w *vWorld) history() {
	k := zzverif.Param("ops", 2)
	for i := 0; i < k; i++ {
		w.step()
	}
}

// VerifC03Get: after a bounded symbolic history a point read at any readable revision returns
// the MVCC snapshot.
func VerifC03Get() {
	w := vNewWorld(zzverif.Param("keys", 2))
	w.history()
	r := w.readRev("R")
	key := w.key("rd")
	w.checkGet(key, r)
	zzverif.Cover("done")
}

// VerifC03List: range reads with every limit 0..n+1 agree with the snapshot.
func VerifC03List() {
	w := vNewWorld(zzverif.Param("keys", 2))
	w.history()
	r := w.readRev("R")
	rg := vRanges[zzverif.Choose("range", len(vRanges))]
	limit := zzverif.Choose("limit", w.nkeys+2)
	w.checkList(rg[0], rg[1], r, limit)
	zzverif.Cover("done")
}

// VerifC03Again: the same read, asked again after one further write, gives the same answer.
func VerifC03Again() {
	w := vNewWorld(zzverif.Param("keys", 2))
	w.history()
	r := w.readRev("R")
	if r == 0 {
		r = w.dealt
	}
	key := w.key("rd")
	rg := vRanges[zzverif.Choose("range", 2)]
	g0 := w.g.Clone()
	w.step()
	cur := w.g
	w.g = g0
	if zzverif.Choose("read", 2) == 0 {
		w.checkGet(key, r)
	} else {
		w.checkList(rg[0], rg[1], r, 0)
	}
	w.g = cur
	zzverif.Cover("done")
}

// VerifC03Count: count at the latest revision equals the number of live keys in range.
func VerifC03Count() {
	w := vNewWorld(zzverif.Param("keys", 2))
	w.history()
	rg := vRanges[zzverif.Choose("range", len(vRanges))]
	w.checkCount(rg[0], rg[1])
	zzverif.Cover("done")
}

// VerifC01Seq: sequential histories: every create/update/delete outcome, returned kv and header
// agrees with the reference chain semantics (assertions in step), from every state the history reaches.
func VerifC01Seq() {
	w := vNewWorld(zzverif.Param("keys", 1))
	w.history()
	for i := 0; i < w.nkeys; i++ {
		w.checkGet(vNames[i], 0)
	}
	zzverif.Cover("done")
}

// VerifC03SymKeys: the key names themselves are symbolic (over the documented alphabet, every byte
// > '$'): one name of 1 byte and one of 2 bytes under the prefix, so that equal names, a name that
// is a prefix of the other and names on either side of every concrete range bound all occur; after
// a bounded history a point read and a range read (any of the fixed intervals, any limit) at a
// readable revision agree with the reference snapshot.
func VerifC03SymKeys() {
	saved := vNames
	defer func() { vNames = saved }()
	a := zzverif.Bytes("name0", 1)
	b := zzverif.Bytes("name1", 2)
	for _, c := range [][]byte{a, b} {
		for i := range c {
			zzverif.Assume(c[i] > '$')
		}
	}
	k0 := append([]byte("/r/"), a...)
	k1 := append([]byte("/r/"), b...)
	vNames = [][]byte{k0, k1}
	w := vNewWorld(2)
	w.history()
	r := w.readRev("R")
	if zzverif.Choose("read", 2) == 0 {
		w.checkGet(w.key("rd"), r)
	} else {
		rg := vRanges[zzverif.Choose("range", len(vRanges))]
		w.checkList(rg[0], rg[1], r, zzverif.Choose("limit", 3))
	}
	if zzverif.HasPrefix(k1, k0) {
		zzverif.Cover("one-name-prefix-of-the-other")
	}
	zzverif.Cover("done")
}
