//go:build verif

package backend

import (
	"errors"
	"time"

	"github.com/kubewharf/kubebrain/pkg/backend/common"
	"github.com/kubewharf/kubebrain/pkg/backend/retry"
	"github.com/kubewharf/kubebrain/pkg/backend/tso"
	"github.com/kubewharf/kubebrain/pkg/storage"
	"github.com/kubewharf/kubebrain/pkg/zzmodel"
	"github.com/kubewharf/kubebrain/pkg/zzverif"
)

// vGateRetry makes the retry queue's operations labelled scheduling points (native replays hold
// the sequencer or the compactor there).
type vGateRetry struct{ retry.AsyncFifoRetry }

func (g *vGateRetry) Append(e *common.WatchEvent) {
	zzverif.YieldAt("retry.append")
	g.AsyncFifoRetry.Append(e)
	zzverif.YieldAt("retry.append-done")
}

func (g *vGateRetry) MinRevision() uint64 {
	zzverif.YieldAt("retry.min")
	return g.AsyncFifoRetry.MinRevision()
}

// VerifC09CompactRace: a write whose commit is answered "outcome unknown" while a compaction
// request arrives at any moment relative to the writer and the sequencer: an accepted compaction
// stays below the unresolved revision (the repair has not run: no time passes in this harness).
func VerifC09CompactRace() {
	retryInterval = 1000 * time.Millisecond
	checkInterval = 50 * time.Millisecond
	w := vNewWorldTSO(1, func(t tso.TSO) tso.TSO { return &vGateAllTSO{t} })
	w.b.asyncFifoRetry = &vGateRetry{w.b.asyncFifoRetry}
	w.history()
	zzverif.WaitIdle()
	applied := zzverif.Choose("variant", 2) == 0
	fired, uncertain := false, false
	// the fault hits the writer's transaction (the one that stores an object version), not the
	// compactor's record update or deletions; OnBegin runs right before the fault decision
	userTxn := false
	w.s.OnBegin = func(ops []zzmodel.Op) {
		userTxn = false
		for _, op := range ops {
			if op.Kind == zzmodel.OpPut && len(ops) >= 2 {
				userTxn = true
			}
		}
	}
	w.s.FaultAt = func(kind string, n int) zzmodel.Fault {
		if kind != "commit" || fired || !userTxn {
			return zzmodel.FaultNone
		}
		fired = true
		if applied {
			return zzmodel.FaultUnknownApplied
		}
		return zzmodel.FaultUnknownLost
	}
	w.s.OnCommit = func(ops []zzmodel.Op, err error) {
		if errors.Is(err, storage.ErrUncertainResult) {
			uncertain = true
		}
	}
	req := w.newReq("f")
	w.dealt++
	unresolved := w.dealt
	accepted, eff := false, uint64(0)
	done := make(chan struct{}, 2)
	zzverif.ExploreSchedules(zzverif.Param("preempt", 2))
	zzverif.Foreground("collectStorageWriteEvents")
	zzverif.Go("writer", func() {
		w.issue(req)
		done <- struct{}{}
	})
	zzverif.Go("compactor", func() {
		zzverif.YieldAt("compact")
		accepted, eff = w.compact(0)
		done <- struct{}{}
	})
	<-done
	<-done
	zzverif.StopExploring()
	w.s.FaultAt, w.s.OnCommit, w.s.OnBegin = nil, nil, nil
	zzverif.WaitIdle()
	if uncertain {
		zzverif.Assert(req.err, "an unknown outcome is reported to the client as an error")
		zzverif.Cover("unknown-outcome")
		if accepted {
			zzverif.Assert(eff < unresolved, "a compaction racing the unresolved write stays below the unresolved revision")
			if eff == unresolved-1 {
				zzverif.Cover("compaction-capped")
			}
		}
		zzverif.Assert(w.b.asyncFifoRetry.Size() == 1, "the unresolved write is queued for repair")
	}
	zzverif.Cover("done")
}
