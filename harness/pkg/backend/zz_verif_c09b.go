//go:build verif

package backend

import (
	"errors"
	"strings"
	"time"

	proto "github.com/kubewharf/kubebrain-client/api/v2rpc"

	"github.com/kubewharf/kubebrain/pkg/backend/common"
	"github.com/kubewharf/kubebrain/pkg/backend/retry"
	"github.com/kubewharf/kubebrain/pkg/backend/tso"
	"github.com/kubewharf/kubebrain/pkg/storage"
	"github.com/kubewharf/kubebrain/pkg/zzmodel"
	"github.com/kubewharf/kubebrain/pkg/zzverif"
)

// vGateRetry makes the retry queue's operations labelled scheduling points (native replays hold
// the sequencer or the compactor there).
type vGateRetry struct{ retry.AsyncFifoRetry }

func (g *vGateRetry) Append(e *common.WatchEvent) {
	zzverif.YieldAt("retry.append")
	g.AsyncFifoRetry.Append(e)
	zzverif.YieldAt("retry.append-done")
}

func (g *vGateRetry) MinRevision() uint64 {
	zzverif.YieldAt("retry.min")
	return g.AsyncFifoRetry.MinRevision()
}

// VerifC09CompactRace: a write whose commit is answered "outcome unknown" while a compaction
// request arrives at any moment relative to the writer and the sequencer: an accepted compaction
// stays below the unresolved revision (the repair has not run: no time passes in this harness).
func VerifC09CompactRace() {
	retryInterval = 1000 * time.Millisecond
	checkInterval = 50 * time.Millisecond
	w := vNewWorldTSO(1, func(t tso.TSO) tso.TSO { return &vGateAllTSO{t} })
	w.b.asyncFifoRetry = &vGateRetry{w.b.asyncFifoRetry}
	w.history()
	zzverif.WaitIdle()
	applied := zzverif.Choose("variant", 2) == 0
	fired, uncertain := false, false
	// the fault hits the writer's transaction (the one that stores an object version), not the
	// compactor's record update or deletions; OnBegin runs right before the fault decision
	userTxn := false
	w.s.OnBegin = func(ops []zzmodel.Op) {
		userTxn = false
		for _, op := range ops {
			if op.Kind == zzmodel.OpPut && len(ops) >= 2 {
				userTxn = true
			}
		}
	}
	w.s.FaultAt = func(kind string, n int) zzmodel.Fault {
		if kind != "commit" || fired || !userTxn {
			return zzmodel.FaultNone
		}
		fired = true
		if applied {
			return zzmodel.FaultUnknownApplied
		}
		return zzmodel.FaultUnknownLost
	}
	w.s.OnCommit = func(ops []zzmodel.Op, err error) {
		if errors.Is(err, storage.ErrUncertainResult) {
			uncertain = true
		}
	}
	req := w.newReq("f")
	w.dealt++
	unresolved := w.dealt
	accepted, eff := false, uint64(0)
	done := make(chan struct{}, 2)
	zzverif.ExploreSchedules(zzverif.Param("preempt", 2))
	zzverif.Foreground("collectStorageWriteEvents")
	zzverif.Go("writer", func() {
		w.issue(req)
		done <- struct{}{}
	})
	zzverif.Go("compactor", func() {
		zzverif.YieldAt("compact")
		accepted, eff = w.compact(0)
		done <- struct{}{}
	})
	<-done
	<-done
	zzverif.StopExploring()
	w.s.FaultAt, w.s.OnCommit, w.s.OnBegin = nil, nil, nil
	zzverif.WaitIdle()
	if uncertain {
		zzverif.Assert(req.err, "an unknown outcome is reported to the client as an error")
		zzverif.Cover("unknown-outcome")
		if accepted {
			zzverif.Assert(eff < unresolved, "a compaction racing the unresolved write stays below the unresolved revision")
			if eff == unresolved-1 {
				zzverif.Cover("compaction-capped")
			}
		}
		zzverif.Assert(w.b.asyncFifoRetry.Size() == 1, "the unresolved write is queued for repair")
	}
	zzverif.Cover("done")
}

// VerifC09RepairInterleave: a write whose commit was answered "outcome unknown" although it landed
// is being repaired; one whole write by another client on the same key (update or delete naming
// the newest revision — symbolic kind and value) lands between any two store operations of the
// repair, or after it (the write runs inside the store's operation hook: no scheduler involved,
// every position is one path and replays natively as it is). Afterwards the queue is empty, the
// key reads as the reference model says, every revision handed out is resolved (a later write
// becomes readable) and the watch stream has announced every successful write exactly once.
func VerifC09RepairInterleave() {
	retryInterval = 1000 * time.Millisecond
	checkInterval = 50 * time.Millisecond
	w := vNewWorld(1)
	key := vNames[0]
	w.create("c0", key)
	zzverif.WaitIdle()
	ch, err := w.b.Watch(vCtx(), "/r/", 0)
	zzverif.Assert(err == nil, "watch accepted")
	cur, _ := w.g.At(key, 0)
	fired := false
	w.s.FaultAt = func(kind string, n int) zzmodel.Fault {
		if kind != "commit" || fired {
			return zzmodel.FaultNone
		}
		fired = true
		return zzmodel.FaultUnknownApplied
	}
	uval := zzverif.Bytes("unknown.val", 1)
	_, err = w.b.Update(vCtx(), &proto.UpdateRequest{Kv: &proto.KeyValue{Key: key, Value: uval, Revision: cur.Rev}})
	zzverif.Assert(err != nil, "unknown outcome is reported as an error")
	w.s.FaultAt = nil
	w.dealt++
	unresolved := w.dealt
	w.g.Append(key, unresolved, uval, false) // it landed
	zzverif.WaitIdle()
	zzverif.Assert(w.b.asyncFifoRetry.Size() == 1, "the unresolved write is queued for repair")
	// the other client's write, placed at the at-th store operation of the repair
	at := zzverif.Choose("at", zzverif.Param("points", 6))
	del := zzverif.Choose("otherDeletes", 2) == 1
	oval := zzverif.Bytes("other.val", 1)
	n, done, inside := 0, false, false
	var orev uint64
	other := func() {
		if del {
			r, err := w.b.Delete(vCtx(), &proto.DeleteRequest{Key: key, Revision: unresolved})
			zzverif.Assert(err == nil && r.Succeeded, "the other client's delete of the newest version succeeds")
			orev = r.Header.Revision
		} else {
			r, err := w.b.Update(vCtx(), &proto.UpdateRequest{Kv: &proto.KeyValue{Key: key, Value: oval, Revision: unresolved}})
			zzverif.Assert(err == nil && r.Succeeded, "the other client's update naming the newest revision succeeds")
			orev = r.Header.Revision
		}
	}
	w.s.Yield = func(p string) {
		if inside || done || strings.HasSuffix(p, "-done") {
			return
		}
		if n == at {
			done, inside = true, true
			other()
			inside = false
			zzverif.Cover("write-inside-the-repair")
		}
		n++
	}
	zzverif.AdvanceClock()
	zzverif.FireTickers()
	zzverif.WaitIdle()
	w.s.Yield = nil
	for i := 0; i < 3 && w.b.asyncFifoRetry.Size() > 0; i++ {
		zzverif.AdvanceClock()
		zzverif.FireTickers()
		zzverif.WaitIdle()
	}
	zzverif.Assume(w.b.asyncFifoRetry.Size() == 0) // the executions in which the repair loop got to run
	repaired := !done
	if !done {
		// the repair had fewer store operations: it has rewritten the unresolved write; the other write comes after it
		newest, _ := w.b.Get(vCtx(), &proto.GetRequest{Key: key})
		zzverif.Assert(newest.Kv != nil && zzverif.BytesEq(newest.Kv.Value, uval) && newest.Kv.Revision > unresolved, "the repair wrote the unresolved value again at a new revision")
		w.g.Append(key, newest.Kv.Revision, uval, false)
		unresolved = newest.Kv.Revision
		other()
		zzverif.Cover("write-after-the-repair")
	}
	_ = repaired
	zzverif.WaitIdle()
	// the key reads as the last successful write left it
	g, err := w.b.Get(vCtx(), &proto.GetRequest{Key: key})
	zzverif.Assert(err == nil, "get: no error")
	if del {
		zzverif.Assert(g.Kv == nil, "the key is deleted")
	} else {
		zzverif.Assert(g.Kv != nil && zzverif.BytesEq(g.Kv.Value, oval) && g.Kv.Revision == orev, "the key holds the other client's value")
	}
	// every revision handed out (also by the repair) is resolved: a later write becomes readable
	cr, err := w.b.Create(vCtx(), &proto.CreateRequest{Key: vNames[3], Value: []byte("l")})
	zzverif.Assert(err == nil && cr.Succeeded, "a later create succeeds")
	zzverif.WaitIdle()
	zzverif.Assert(w.b.GetCurrentRevision() >= cr.Header.Revision, "requests keep flowing: a later write becomes readable")
	// the other client's write was announced exactly once
	evs, closed := vDrainEvents(ch)
	zzverif.Assert(!closed, "watch stays open")
	seen := 0
	last := uint64(0)
	for _, e := range evs {
		zzverif.Assert(e.Revision > last, "events in increasing revision order")
		last = e.Revision
		if e.Revision == orev {
			seen++
		}
	}
	zzverif.Assert(seen == 1, "the other client's write is announced exactly once")
	zzverif.Cover("done")
}
