//go:build verif

package backend

import (
	"context"

	proto "github.com/kubewharf/kubebrain-client/api/v2rpc"

	"github.com/kubewharf/kubebrain/pkg/zzmodel"
	"github.com/kubewharf/kubebrain/pkg/zzverif"
)

// names is the key universe: concrete, prefix-related names under prefix /r.
var vNames = [][]byte{[]byte("/r/a"), []byte("/r/a/b"), []byte("/r/a-b"), []byte("/r/ab")}

const vPrefix = "/r"

func vNewBackend(s *zzmodel.Store, base uint64, cache int) *backend {
	b := NewBackend(s, Config{Prefix: vPrefix, EnableEtcdCompatibility: true, WatchCacheSize: cache}, zzmodel.NoMetrics{}).(*backend)
	b.tso.Init(base)
	return b
}

func vCtx() context.Context { return context.Background() }

// VerifSmoke: create, wait for the sequencer, read back.
func VerifSmoke() {
	s := zzmodel.NewStore()
	b := vNewBackend(s, 5, 4)
	val := zzverif.Bytes("v", 1)
	resp, err := b.Create(vCtx(), &proto.CreateRequest{Key: vNames[0], Value: val})
	zzverif.Assert(err == nil, "create ok")
	zzverif.Assert(resp.Succeeded, "create succeeded")
	zzverif.Assert(resp.Header.Revision == 6, "create revision")
	zzverif.WaitIdle()
	zzverif.Assert(b.GetCurrentRevision() == 6, "committed")
	g, err := b.Get(vCtx(), &proto.GetRequest{Key: vNames[0]})
	zzverif.Assert(err == nil, "get ok")
	zzverif.Assert(g.Kv != nil, "kv present")
	zzverif.Assert(zzverif.BytesEq(g.Kv.Value, val), "value")
	zzverif.Assert(g.Kv.Revision == 6, "mod revision")
	zzverif.Cover("done")
}
