//go:build verif

package backend

import (
	"context"
	"sync/atomic"

	"github.com/kubewharf/kubebrain/pkg/backend/coder"
	"github.com/kubewharf/kubebrain/pkg/backend/creator"
	"github.com/kubewharf/kubebrain/pkg/backend/election"
	"github.com/kubewharf/kubebrain/pkg/backend/retry"
	"github.com/kubewharf/kubebrain/pkg/backend/scanner"
	"github.com/kubewharf/kubebrain/pkg/backend/tso"
	"github.com/kubewharf/kubebrain/pkg/metrics"
	"github.com/kubewharf/kubebrain/pkg/storage"
	smetrics "github.com/kubewharf/kubebrain/pkg/storage/metrics"

	proto "github.com/kubewharf/kubebrain-client/api/v2rpc"

	"github.com/kubewharf/kubebrain/pkg/zzmodel"
	"github.com/kubewharf/kubebrain/pkg/zzverif"
)

// names is the key universe: concrete, prefix-related names under prefix /r.
var vNames = [][]byte{[]byte("/r/a"), []byte("/r/a/b"), []byte("/r/a-b"), []byte("/r/ab")}

const vPrefix = "/r"

// vStack is the storage stack the node runs on: the contract store itself, or (parameter
// wrapper=1) the contract store behind the storage metrics wrapper, as with --enable-storage-metrics.
func vStack(s *zzmodel.Store, metricCli metrics.Metrics) storage.KvStorage {
	if zzverif.Param("wrapper", 0) == 1 {
		return smetrics.NewKvStorage(s, metricCli)
	}
	return s
}

func vNewBackend(s *zzmodel.Store, base uint64, cache int) *backend {
	b := NewBackend(vStack(s, zzmodel.NoMetrics{}), Config{Prefix: vPrefix, EnableEtcdCompatibility: true, WatchCacheSize: cache}, zzmodel.NoMetrics{}).(*backend)
	b.tso.Init(base)
	return b
}

// vNewBackendTSO builds a backend exactly as NewBackend does, but with the revision generator
// wrapped from the start (replacing b.tso after NewBackend has started its goroutines would be a
// data race in native replays).
func vNewBackendTSO(s *zzmodel.Store, base uint64, cache int, wrap func(tso.TSO) tso.TSO) *backend {
	return vNewBackendFull(s, base, cache, wrap, zzmodel.NoMetrics{})
}

// vNewBackendFull additionally takes the metrics client (e.g. zzmodel.YieldMetrics, whose
// emissions are scheduling points).
func vNewBackendFull(s *zzmodel.Store, base uint64, cache int, wrap func(tso.TSO) tso.TSO, metricCli metrics.Metrics) *backend {
	config := Config{Prefix: vPrefix, EnableEtcdCompatibility: true, WatchCacheSize: cache}
	kv := vStack(s, metricCli)
	config.complete()
	normalCoder := coder.NewNormalCoder()
	electionConfig := election.Config{Prefix: config.Prefix, Identity: config.Identity, Timeout: unaryRpcTimeout}
	inner := tso.NewTSO()
	inner.Init(base)
	b := &backend{
		kv:                    kv,
		tso:                   wrap(inner),
		coder:                 normalCoder,
		creator:               creator.NewNaiveCreator(kv, normalCoder),
		election:              election.NewResourceLockManager(electionConfig, kv),
		scanner:               scanner.NewScanner(kv, normalCoder, config.getScannerConfig(), metricCli),
		config:                config,
		capacity:              config.WatchCacheSize,
		watchEventsRingBuffer: make([]atomic.Value, watchersChanCapacity, watchersChanCapacity),
		watchCache:            NewRing(config.WatchCacheSize),
		watchChan:             make(chan []*proto.Event, watchersChanCapacity),
		watcherHub: &WatcherHub{
			subs:      make(map[chan []*proto.Event]struct{}),
			metricCli: metricCli,
		},
		metricCli: metricCli,
	}
	asyncRetryConfig := retry.Config{
		UnaryTimeout:  unaryRpcTimeout,
		CheckInterval: checkInterval,
		RetryInterval: retryInterval,
		Tombstone:     tombStoneBytes,
	}
	b.asyncFifoRetry = retry.NewAsyncFifoRetry(b.coder, b.kv, b.metricCli, b.tso, b.getLatestInternalVal, b.notify, asyncRetryConfig)
	go b.collectStorageWriteEvents()
	in := b.watchChan
	if vStreamIn != nil {
		in = vStreamIn(in)
	}
	go b.watcherHub.Stream(in)
	go b.asyncFifoRetry.Run(context.Background())
	return b
}

// vStreamIn (if set) is put between the sequencer's output channel and the fan-out goroutine by
// vNewBackendFull: a harness can hold a batch between the event cache and the broadcast.
var vStreamIn func(src chan []*proto.Event) chan []*proto.Event

func vCoder() coder.Coder { return coder.NewNormalCoder() }

func vCtx() context.Context { return context.Background() }

// VerifSmoke: create, wait for the sequencer, read back.
func VerifSmoke() {
	s := zzmodel.NewStore()
	b := vNewBackend(s, 5, 4)
	val := zzverif.Bytes("v", 1)
	resp, err := b.Create(vCtx(), &proto.CreateRequest{Key: vNames[0], Value: val})
	zzverif.Assert(err == nil, "create ok")
	zzverif.Assert(resp.Succeeded, "create succeeded")
	zzverif.Assert(resp.Header.Revision == 6, "create revision")
	zzverif.WaitIdle()
	zzverif.Assert(b.GetCurrentRevision() == 6, "committed")
	g, err := b.Get(vCtx(), &proto.GetRequest{Key: vNames[0]})
	zzverif.Assert(err == nil, "get ok")
	zzverif.Assert(g.Kv != nil, "kv present")
	zzverif.Assert(zzverif.BytesEq(g.Kv.Value, val), "value")
	zzverif.Assert(g.Kv.Revision == 6, "mod revision")
	zzverif.Cover("done")
}
