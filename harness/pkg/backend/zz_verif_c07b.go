//go:build verif

package backend

import (
	"bytes"
	"strings"

	"github.com/kubewharf/kubebrain/pkg/zzverif"
)

// VerifC07Borders: for every configuration accepted at start-up (prefix without trailing slash,
// skipped prefixes that start with the prefix and have no trailing slash) the compaction ranges
// cover a raw key exactly when it lies under <prefix>/ and under no <skipped>/.
func VerifC07Borders() {
	prefix := "/r"
	nskip := zzverif.Choose("nskip", zzverif.Param("maxskip", 2)+1)
	var skipped []string
	for i := 0; i < nskip; i++ {
		tag := "skip" + string(rune('0'+i))
		// /r followed by 1..3 bytes over {'/', 'a', 'b'}; the conditions of KubeBrainOption.Validate
		n := 1 + zzverif.Choose(tag+".len", 3)
		suffix := zzverif.Bytes(tag, n)
		for j := range suffix {
			zzverif.Assume(zzverif.Or(suffix[j] == '/', zzverif.Or(suffix[j] == 'a', suffix[j] == 'b')))
		}
		zzverif.Assume(suffix[n-1] != '/')
		skipped = append(skipped, prefix+string(suffix))
	}
	b := &backend{coder: vCoder(), config: Config{Prefix: prefix, SkippedPrefixes: skipped}}
	borders := b.getCompactBorders()
	zzverif.Assert(len(borders)%2 == 0, "borders come in pairs")
	// a raw key with symbolic bytes
	kn := 2 + zzverif.Choose("key.len", zzverif.Param("keylen", 4))
	key := zzverif.Bytes("key", kn)
	for j := range key {
		zzverif.Assume(zzverif.Or(zzverif.Or(key[j] == '/', key[j] == 'r'), zzverif.Or(zzverif.Or(key[j] == 'a', key[j] == 'b'), key[j] == 'x')))
	}
	enc := b.coder.EncodeObjectKey(key, zzverif.U64("rev"))
	covered := false
	for i := 0; i+1 < len(borders); i += 2 {
		in := zzverif.And(bytes.Compare(borders[i], enc) <= 0, bytes.Compare(enc, borders[i+1]) < 0)
		covered = zzverif.Or(covered, in)
	}
	under := zzverif.HasPrefix(key, []byte(prefix+"/"))
	excluded := false
	nested, sibling := false, false
	for i, s := range skipped {
		excluded = zzverif.Or(excluded, zzverif.HasPrefix(key, []byte(s+"/")))
		if !strings.HasPrefix(s, prefix+"/") {
			sibling = true // accepted by Validate (string prefix) but not under <prefix>/
		}
		for j, t := range skipped {
			if i != j && (strings.HasPrefix(s+"/", t+"/")) {
				nested = true
			}
		}
	}
	zzverif.Finding("skipped_prefix_nested_or_sibling", nested || sibling)
	want := zzverif.And(under, zzverif.Not(excluded))
	zzverif.Assert(covered == want, "compaction ranges cover exactly the keys under the prefix and under no skipped prefix")
	if nskip > 0 {
		zzverif.Cover("with-skipped")
	}
	zzverif.Cover("done")
}
