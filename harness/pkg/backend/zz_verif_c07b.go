//go:build verif

package backend

import (
	"bytes"
	"strings"

	proto "github.com/kubewharf/kubebrain-client/api/v2rpc"

	"github.com/kubewharf/kubebrain/pkg/zzverif"
)

// VerifC07Borders: for every configuration accepted at start-up (prefix without trailing slash,
// skipped prefixes that start with the prefix and have no trailing slash) the compaction ranges
// cover a raw key exactly when it lies under <prefix>/ and under no <skipped>/.
func VerifC07Borders() {
	prefix := "/r"
	nskip := zzverif.Choose("nskip", zzverif.Param("maxskip", 2)+1)
	var skipped []string
	for i := 0; i < nskip; i++ {
		tag := "skip" + string(rune('0'+i))
		// /r followed by 1..3 bytes over {'/', 'a', 'b'}; the conditions of KubeBrainOption.Validate
		n := 1 + zzverif.Choose(tag+".len", 3)
		suffix := zzverif.Bytes(tag, n)
		for j := range suffix {
			zzverif.Assume(zzverif.Or(suffix[j] == '/', zzverif.Or(suffix[j] == 'a', suffix[j] == 'b')))
		}
		zzverif.Assume(suffix[n-1] != '/')
		skipped = append(skipped, prefix+string(suffix))
	}
	b := &backend{coder: vCoder(), config: Config{Prefix: prefix, SkippedPrefixes: skipped}}
	borders := b.getCompactBorders()
	zzverif.Assert(len(borders)%2 == 0, "borders come in pairs")
	// a raw key with symbolic bytes
	kn := 2 + zzverif.Choose("key.len", zzverif.Param("keylen", 4))
	key := zzverif.Bytes("key", kn)
	for j := range key {
		zzverif.Assume(zzverif.Or(zzverif.Or(key[j] == '/', key[j] == 'r'), zzverif.Or(zzverif.Or(key[j] == 'a', key[j] == 'b'), key[j] == 'x')))
	}
	enc := b.coder.EncodeObjectKey(key, zzverif.U64("rev"))
	covered := false
	for i := 0; i+1 < len(borders); i += 2 {
		in := zzverif.And(bytes.Compare(borders[i], enc) <= 0, bytes.Compare(enc, borders[i+1]) < 0)
		covered = zzverif.Or(covered, in)
	}
	under := zzverif.HasPrefix(key, []byte(prefix+"/"))
	excluded := false
	nested, sibling := false, false
	for i, s := range skipped {
		excluded = zzverif.Or(excluded, zzverif.HasPrefix(key, []byte(s+"/")))
		if !strings.HasPrefix(s, prefix+"/") {
			sibling = true // accepted by Validate (string prefix) but not under <prefix>/
		}
		for j, t := range skipped {
			if i != j && (strings.HasPrefix(s+"/", t+"/")) {
				nested = true
			}
		}
	}
	zzverif.Finding("skipped_prefix_nested_or_sibling", nested || sibling)
	want := zzverif.And(under, zzverif.Not(excluded))
	zzverif.Assert(covered == want, "compaction ranges cover exactly the keys under the prefix and under no skipped prefix")
	if nskip > 0 {
		zzverif.Cover("with-skipped")
	}
	zzverif.Cover("done")
}

// VerifC07Interleave: one whole write (create over a tombstone, update, delete — symbolic kind and
// expectation) lands between any two store operations of a compaction (or after all of them): no
// scheduler involved, the write runs inside the store's operation hook, so every position is one
// path and replays natively as is. The write keeps its normal semantics, reads at revisions >= R
// are unchanged, and the key stays writable.
func VerifC07Interleave() {
	w := vNewWorld(1)
	w.vScenario(zzverif.Choose("scenario", 3))
	c := zzverif.U64("c")
	zzverif.Assume(zzverif.And(c > w.base, c <= w.dealt))
	req := w.newReq("wr")
	wanted := req.wants(w.g)
	at := zzverif.Choose("at", zzverif.Param("points", 10))
	n, fired, inside := 0, false, false
	w.s.Yield = func(p string) {
		if inside || fired || strings.HasSuffix(p, "-done") {
			return
		}
		if n == at {
			fired, inside = true, true
			w.issue(req)
			inside = false
		}
		n++
	}
	w.b.Compact(vCtx(), c)
	w.s.Yield = nil
	if !fired {
		w.issue(req) // the compaction had fewer operations: the write comes after it
		zzverif.Cover("write-after-compaction")
	} else {
		zzverif.Cover("write-inside-compaction")
	}
	w.dealt++
	zzverif.WaitIdle()
	if req.err {
		zzverif.Assert(req.exp > w.dealt, "interleaved write: error only for a future expected revision")
	} else {
		zzverif.Assert(req.ok == wanted, "a write landing inside a compaction keeps its normal semantics")
		if req.ok {
			req.apply(w.g)
			zzverif.Cover("interleaved-write-succeeded")
		}
	}
	r := zzverif.U64("R")
	zzverif.Assume(zzverif.Or(r == 0, zzverif.And(r >= c, r <= w.dealt)))
	w.checkGet(req.key, r)
	key := req.key
	if cur, live := w.g.At(key, 0); live {
		resp, err := w.b.Update(vCtx(), &proto.UpdateRequest{Kv: &proto.KeyValue{Key: key, Value: []byte("z"), Revision: cur.Rev}})
		zzverif.Assert(err == nil && resp.Succeeded, "afterwards a live key accepts an update naming its latest revision")
		cr, err := w.b.Create(vCtx(), &proto.CreateRequest{Key: key, Value: []byte("y")})
		zzverif.Assert(err == nil && !cr.Succeeded, "afterwards a live key refuses a second create")
	} else {
		cr, err := w.b.Create(vCtx(), &proto.CreateRequest{Key: key, Value: []byte("y")})
		zzverif.Assert(err == nil && cr.Succeeded, "afterwards an absent key can be created")
	}
	zzverif.Cover("done")
}
