//go:build verif

package backend

import (
	"encoding/binary"

	proto "github.com/kubewharf/kubebrain-client/api/v2rpc"

	"github.com/kubewharf/kubebrain/pkg/backend/tso"
	"github.com/kubewharf/kubebrain/pkg/zzmodel"
	"github.com/kubewharf/kubebrain/pkg/zzverif"
)

// record returns the stored compaction record (0 when absent).
func (w *vWorld) record() uint64 {
	v, ok := w.s.RawGet(getCompactKey(vPrefix))
	if !ok {
		return 0
	}
	zzverif.Assert(len(v) == 8, "compaction record is 8 bytes")
	return binary.BigEndian.Uint64(v)
}

// compact issues one compaction request; it maintains w.floor = the highest accepted revision.
func (w *vWorld) compact(rev uint64) (accepted bool, eff uint64) {
	before := w.record()
	resp, err := w.b.Compact(vCtx(), rev)
	after := w.record()
	zzverif.Assert(after >= before, "compaction record never decreases")
	if err != nil {
		return false, 0
	}
	eff = resp.Header.Revision
	zzverif.Assert(eff <= w.dealt, "accepted compaction revision is at most the current revision")
	zzverif.Assert(after >= eff, "an accepted compaction leaves the record at or above its revision")
	if eff > w.floor {
		w.floor = eff
	}
	zzverif.Assert(after >= w.floor, "the floor never drops below an accepted compaction")
	return true, eff
}

// stream collects a streamed range; it returns the kvs, the header revisions seen and the error text.
func vDrain(ch <-chan *proto.StreamRangeResponse) (kvs []*proto.KeyValue, nterm int, errText string, hdrOK bool, rev uint64) {
	hdrOK = true
	first := true
	for resp := range ch {
		rr := resp.RangeResponse
		if rr == nil {
			hdrOK = false
			continue
		}
		if first {
			rev = rr.Header.Revision
			first = false
		}
		if !rr.More {
			nterm++
			errText = resp.Err
			zzverif.Assert(len(rr.Kvs) == 0, "stream terminator carries no kvs")
		} else {
			zzverif.Assert(nterm == 0, "no batch after the terminator")
			kvs = append(kvs, rr.Kvs...)
		}
		if rr.Header == nil {
			hdrOK = false
		}
	}
	return
}

// VerifC08Floor: compaction requests in any order never lower the floor, and range reads below
// the floor are refused (unlimited, limited and streamed).
func VerifC08Floor() {
	w := vNewWorld(zzverif.Param("keys", 2))
	w.history()
	n := zzverif.Param("compactions", 2)
	for i := 0; i < n; i++ {
		c := zzverif.U64("c" + string(rune('0'+i)))
		ok, eff := w.compact(c)
		if ok && eff < w.floor {
			zzverif.Cover("older-request-accepted")
		}
		if ok {
			zzverif.Cover("accepted")
		}
		if zzverif.Param("interleave", 0) == 1 {
			w.step()
		}
	}
	r := zzverif.U64("R")
	zzverif.Assume(zzverif.And(r > 0, r <= w.dealt))
	// the whole prefix, a directory, or the interval that holds exactly one key ([k, k+0x00))
	rg := [][2][]byte{vRanges[0], vRanges[2], {vNames[0], append(append([]byte(nil), vNames[0]...), 0)}}[zzverif.Choose("interval", 3)]
	if zzverif.Param("getfault", 0) == 1 {
		// one of the engine's point reads during the request (the compaction record is read that
		// way) fails transiently: the request may fail, it is never answered with data below the floor
		if at := zzverif.Choose("getfault", 4); at > 0 {
			w.s.NGets = 0
			w.s.GetFault = func(key []byte, n int) bool { return n == at-1 }
			zzverif.Cover("record-unreadable-once")
		}
	}
	switch zzverif.Choose("read", 3) {
	case 0:
		resp, err := w.b.List(vCtx(), &proto.RangeRequest{Key: rg[0], End: rg[1], Revision: r})
		if r < w.floor {
			zzverif.Assert(err != nil, "unlimited range read below the floor is refused")
			zzverif.Cover("refused")
		} else if err == nil {
			_ = resp
			zzverif.Cover("served")
		}
	case 1:
		_, err := w.b.List(vCtx(), &proto.RangeRequest{Key: rg[0], End: rg[1], Revision: r, Limit: 1})
		if r < w.floor {
			zzverif.Assert(err != nil, "limited range read below the floor is refused")
			zzverif.Cover("refused-limited")
		}
	default:
		ch, err := w.b.ListByStream(vCtx(), w.b.coder.EncodeObjectKey(rg[0], 0), w.b.coder.EncodeObjectKey(rg[1], 0), r)
		zzverif.Assert(err == nil, "stream starts")
		kvs, nterm, errText, _, _ := vDrain(ch)
		zzverif.Assert(nterm == 1, "stream ends with exactly one terminator")
		if r < w.floor {
			zzverif.Assert(errText != "", "streamed range below the floor ends with an error")
			zzverif.Assert(len(kvs) == 0, "streamed range below the floor carries no data")
			zzverif.Cover("refused-stream")
		}
	}
	zzverif.Cover("done")
}

// faultPlan draws a fault for every compaction delete: none, definite error, unknown-applied,
// unknown-not-applied, or (once chosen) crash = this and every later delete fails.
type vFaultPlan struct {
	crashed bool
	n       int
	max     int
}

func (f *vFaultPlan) at(kind string, n int) zzmodel.Fault {
	if kind == "commit" {
		return zzmodel.FaultNone
	}
	if f.crashed {
		return zzmodel.FaultErr
	}
	if f.n >= f.max {
		return zzmodel.FaultNone
	}
	// every delete of the pass is a candidate position; at most f.max of them fail
	switch zzverif.Choose("delfault", 5) {
	case 4:
		f.n++
		zzverif.Cover("delete-unknown-lost")
		return zzmodel.FaultUnknownLost
	case 1:
		f.n++
		zzverif.Cover("delete-error")
		return zzmodel.FaultErr
	case 2:
		f.n++
		zzverif.Cover("delete-unknown-applied")
		return zzmodel.FaultUnknownApplied
	case 3:
		f.n++
		f.crashed = true
		zzverif.Cover("compactor-dies")
		return zzmodel.FaultErr
	}
	return zzmodel.FaultNone
}

// VerifC07Compact: compaction at R (complete, interrupted, or with failing deletes) leaves every
// read at every revision >= R unchanged, keys stay writable, keys outside the ranges are untouched.
func VerifC07Compact() {
	w := vNewWorld(zzverif.Param("keys", 2))
	// a key outside the compaction ranges (other prefix) and one that only resembles the prefix
	outside := [][]byte{[]byte("/q/x"), []byte("/rx/y")}
	for _, k := range outside {
		w.s.RawPut(w.b.coder.EncodeObjectKey(k, 0), uint64ToBytes(3))
		w.s.RawPut(w.b.coder.EncodeObjectKey(k, 2), []byte("old"))
		w.s.RawPut(w.b.coder.EncodeObjectKey(k, 3), []byte("new"))
	}
	w.history()
	fp := &vFaultPlan{max: zzverif.Param("delfaults", 1)}
	w.s.FaultAt = fp.at
	c := zzverif.U64("c")
	zzverif.Assume(zzverif.And(c > w.base, c <= w.dealt))
	if zzverif.Param("borders", 0) > 0 {
		// the engine splits the key space while the compaction runs: borders on index records or
		// inside one key's versions (any revision), pieces advertised in any order
		w.setPartitions()
	}
	if zzverif.Param("iterfault", 0) == 1 {
		// one step of the compaction's scan fails transiently (the scan's own back-off retry goes on)
		if at := zzverif.Choose("iterfault", 7); at > 0 {
			n, fired := 0, false
			w.s.IterFault = func(start []byte, step int) bool {
				n++
				if !fired && n == at {
					fired = true
					zzverif.Cover("scan-step-failed")
					return true
				}
				return false
			}
		}
	}
	ok, eff := w.compact(c)
	w.s.FaultAt = nil
	w.s.IterFault = nil
	w.s.Partitions = nil
	zzverif.Assert(ok, "compaction request accepted")
	zzverif.Assert(eff == c, "compaction ran at the requested revision")
	// reads at every revision >= R, and at the latest, are unchanged
	r := zzverif.U64("R")
	zzverif.Assume(zzverif.Or(r == 0, zzverif.And(r >= c, r <= w.dealt)))
	switch zzverif.Choose("read", 2) {
	case 0:
		w.checkGet(w.key("rd"), r)
	default:
		w.checkList(vRanges[0][0], vRanges[0][1], r, 0)
	}
	for _, k := range outside {
		v0, ok0 := w.s.RawGet(w.b.coder.EncodeObjectKey(k, 0))
		v2, ok2 := w.s.RawGet(w.b.coder.EncodeObjectKey(k, 2))
		v3, ok3 := w.s.RawGet(w.b.coder.EncodeObjectKey(k, 3))
		zzverif.Assert(ok0 && ok2 && ok3, "keys outside the compaction ranges keep all their records")
		zzverif.Assert(zzverif.BytesEq(v0, uint64ToBytes(3)) && string(v2) == "old" && string(v3) == "new", "keys outside the compaction ranges are untouched")
	}
	// every key stays writable with normal semantics
	if zzverif.Param("after", 1) == 1 {
		w.step()
	}
	zzverif.Cover("done")
}

// vScenario builds a fixed initial key history with symbolic values: 0 = create,delete (a
// tombstone), 1 = create,update (two live versions), 2 = create,delete,create (re-created).
func (w *vWorld) vScenario(sc int) {
	key := vNames[0]
	put := func(tag string, create bool) {
		val := zzverif.Bytes(tag, 1)
		if create {
			resp, err := w.b.Create(vCtx(), &proto.CreateRequest{Key: key, Value: val})
			zzverif.Assert(err == nil && resp.Succeeded, "scenario: create")
			w.dealt++
			w.g.Append(key, resp.Header.Revision, val, false)
		} else {
			cur, _ := w.g.At(key, 0)
			resp, err := w.b.Update(vCtx(), &proto.UpdateRequest{Kv: &proto.KeyValue{Key: key, Value: val, Revision: cur.Rev}})
			zzverif.Assert(err == nil && resp.Succeeded, "scenario: update")
			w.dealt++
			w.g.Append(key, resp.Header.Revision, val, false)
		}
	}
	del := func() {
		resp, err := w.b.Delete(vCtx(), &proto.DeleteRequest{Key: key})
		zzverif.Assert(err == nil && resp.Succeeded, "scenario: delete")
		w.dealt++
		w.g.Append(key, resp.Header.Revision, nil, true)
	}
	put("sc0", true)
	switch sc {
	case 0:
		del()
	case 1:
		put("sc1", false)
	default:
		del()
		put("sc2", true)
	}
	zzverif.WaitIdle()
}

// VerifC07Race: a compaction racing one writer on the key being compacted (create over a
// tombstone, update, delete), every interleaving of the compaction workers' and the writer's
// store operations within the delay bound. The write keeps its normal semantics, reads at
// revisions >= R are unchanged and the key stays writable afterwards.
func VerifC07Race() {
	w := vNewWorldTSO(1, func(t tso.TSO) tso.TSO { return &vYieldTSO{t} })
	w.vScenario(zzverif.Choose("scenario", 3))
	c := zzverif.U64("c")
	zzverif.Assume(zzverif.And(c > w.base, c <= w.dealt))
	req := w.newReq("wr")
	wanted := req.wants(w.g)
	w.s.Yield = zzverif.YieldAt
	done := make(chan struct{}, 2)
	zzverif.ExploreSchedules(zzverif.Param("preempt", 2))
	zzverif.Go("compactor", func() {
		w.b.Compact(vCtx(), c)
		done <- struct{}{}
	})
	zzverif.Go("writer", func() {
		w.issue(req)
		done <- struct{}{}
	})
	<-done
	<-done
	zzverif.StopExploring()
	w.s.Yield = nil
	w.dealt++
	zzverif.WaitIdle()
	if req.err {
		zzverif.Assert(req.exp > w.dealt, "racing write: error only for a future expected revision")
	} else {
		zzverif.Assert(req.ok == wanted, "a write racing the compaction keeps its normal semantics")
		if req.ok {
			req.apply(w.g)
			zzverif.Cover("racing-write-succeeded")
		}
	}
	r := zzverif.U64("R")
	zzverif.Assume(zzverif.Or(r == 0, zzverif.And(r >= c, r <= w.dealt)))
	w.checkGet(req.key, r)
	// the key stays writable with normal semantics: the natural next write succeeds
	key := req.key
	if cur, live := w.g.At(key, 0); live {
		resp, err := w.b.Update(vCtx(), &proto.UpdateRequest{Kv: &proto.KeyValue{Key: key, Value: []byte("z"), Revision: cur.Rev}})
		zzverif.Assert(err == nil && resp.Succeeded, "after the race a live key accepts an update naming its latest revision")
		cr, err := w.b.Create(vCtx(), &proto.CreateRequest{Key: key, Value: []byte("y")})
		zzverif.Assert(err == nil && !cr.Succeeded, "after the race a live key refuses a second create")
	} else {
		cr, err := w.b.Create(vCtx(), &proto.CreateRequest{Key: key, Value: []byte("y")})
		zzverif.Assert(err == nil && cr.Succeeded, "after the race an absent key can be created")
	}
	zzverif.Cover("done")
}
