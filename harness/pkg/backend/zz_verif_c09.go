//go:build verif

package backend

import (
	"errors"
	"time"

	proto "github.com/kubewharf/kubebrain-client/api/v2rpc"

	"github.com/kubewharf/kubebrain/pkg/storage"
	"github.com/kubewharf/kubebrain/pkg/zzmodel"
	"github.com/kubewharf/kubebrain/pkg/zzverif"
)

// VerifC09Uncertain: a commit answered "outcome unknown" (applied or not), further writes,
// a compaction attempt, then the repair (possibly faulted itself): the client saw an error,
// requests keep flowing, compaction stays below the unresolved revision, and at the end the
// store and the watch stream converge.
func VerifC09Uncertain() {
	// natively the repair loop runs on real time: FireTickers sleeps longer than this interval
	retryInterval = 1000 * time.Millisecond
	checkInterval = 50 * time.Millisecond
	w := vNewWorld(zzverif.Param("keys", 1))
	lowest := w.base
	if zzverif.Param("arbitrary", 0) == 1 {
		// an arbitrary store state satisfying the representation invariant (the inductive pre-state)
		w.vArbitraryState()
		w.vInvariant(vNames[0], "pre-state")
		lowest = 0
	} else if sc := zzverif.Param("scenario", -1); sc >= 0 {
		w.vScenario(sc) // a fixed key history: 0 = created and deleted (the deletion mark is still there)
	} else {
		w.history()
	}
	rg := vRanges[0]
	l, err := w.b.List(vCtx(), &proto.RangeRequest{Key: rg[0], End: rg[1]})
	zzverif.Assert(err == nil, "list: no error")
	snap := make([]vSnapEntry, len(vNames))
	for _, kv := range l.Kvs {
		snap[vNameIndex(kv.Key)] = vSnapEntry{true, kv.Value, kv.Revision}
	}
	ch, err := w.b.Watch(vCtx(), "/r/", 0)
	zzverif.Assert(err == nil, "watch accepted")

	// the faulted request
	applied := zzverif.Choose("variant", 2) == 0
	fired, uncertain := false, false
	// the fault hits the request's first commit or (faultpos > 1) a later one: a create over a
	// deletion mark commits twice
	faultAt := zzverif.Choose("faultAt", zzverif.Param("faultpos", 1))
	ncommit := 0
	w.s.FaultAt = func(kind string, n int) zzmodel.Fault {
		if kind != "commit" || fired {
			return zzmodel.FaultNone
		}
		ncommit++
		if ncommit-1 != faultAt {
			return zzmodel.FaultNone
		}
		fired = true
		if applied {
			return zzmodel.FaultUnknownApplied
		}
		return zzmodel.FaultUnknownLost
	}
	w.s.OnCommit = func(ops []zzmodel.Op, err error) {
		if errors.Is(err, storage.ErrUncertainResult) {
			uncertain = true
		}
	}
	req := w.newReq("f")
	wanted := req.wants(w.g)
	w.issue(req)
	w.dealt++
	w.s.FaultAt, w.s.OnCommit = nil, nil
	unresolved := uint64(0)
	if uncertain {
		zzverif.Assert(req.err, "an unknown outcome is reported to the client as an error, never as success or as a definite conflict")
		unresolved = w.dealt
		zzverif.Cover("unknown-outcome")
		if applied {
			// the write is in the store although the client was told "error"
			req.rev = unresolved
			req.apply(w.g)
			zzverif.Cover("unknown-applied")
		} else {
			zzverif.Cover("unknown-lost")
		}
	} else {
		zzverif.Assert(!req.err || req.exp > w.dealt, "definite outcome: no error")
		if !req.err {
			zzverif.Assert(req.ok == wanted, "definite outcome agrees with the reference model")
			if req.ok {
				req.apply(w.g)
			}
		}
	}
	zzverif.WaitIdle()
	zzverif.Assert(w.b.GetCurrentRevision() == w.dealt, "the readable revision passes the unresolved revision")

	// later requests keep flowing
	nf := zzverif.Param("foreign", 1)
	for i := 0; i < nf; i++ {
		w.step()
	}
	// compaction does not advance past the unresolved revision
	if uncertain && zzverif.Choose("compactNow", 2) == 1 {
		ok, eff := w.compact(0)
		if ok {
			zzverif.Assert(eff < unresolved, "compaction does not advance past the unresolved revision")
			zzverif.Cover("compaction-capped")
		}
	}
	// the repair, possibly faulted itself
	rewrite := false
	if uncertain && applied {
		if newest, have := w.g.Newest(req.key); have && newest.Rev == unresolved {
			rewrite = true
		}
	}
	repairFault := zzmodel.FaultNone
	if zzverif.Param("repairfaults", 0) == 1 && rewrite {
		repairFault = zzmodel.Fault(zzverif.Choose("repairFault", 4))
		fired2 := false
		w.s.FaultAt = func(kind string, n int) zzmodel.Fault {
			if kind != "commit" || fired2 {
				return zzmodel.FaultNone
			}
			fired2 = true
			return repairFault
		}
	}
	for i := 0; i < 3 && w.b.asyncFifoRetry.Size() > 0; i++ {
		zzverif.AdvanceClock() // an arbitrary amount of time passes
		zzverif.FireTickers()
		zzverif.WaitIdle()
	}
	w.s.FaultAt = nil
	if repairFault == zzmodel.FaultUnknownApplied || repairFault == zzmodel.FaultUnknownLost {
		// the repair itself is unresolved: it is queued again and repaired in turn
		for i := 0; i < 3 && w.b.asyncFifoRetry.Size() > 0; i++ {
			zzverif.FireTickers()
			zzverif.WaitIdle()
		}
	}
	zzverif.Observe("queue", w.b.asyncFifoRetry.Size(), w.b.GetCurrentRevision())
	// consider the executions in which the repair loop got to run (the interval elapsed)
	zzverif.Assume(w.b.asyncFifoRetry.Size() == 0)
	if rewrite {
		zzverif.Cover("repair-rewrites")
	}
	zzverif.WaitIdle()
	cur := w.b.GetCurrentRevision()
	zzverif.Assert(cur >= w.dealt, "readable revision keeps up after the repair")

	// convergence: folding the delivered events over the earlier snapshot gives the final state
	evs, closed := vDrainEvents(ch)
	zzverif.Assert(!closed, "watch stays open")
	last := uint64(0)
	for _, e := range evs {
		zzverif.Assert(e.Revision > last, "events in increasing revision order")
		last = e.Revision
		i := vNameIndex(e.Kv.Key)
		if e.Type == proto.Event_DELETE {
			// a delete event (also one announced by the repair) carries the version it removed: the
			// newest live version below the event's revision in the reference model (which also
			// holds writes that landed without ever being announced)
			found := false
			for r := e.Revision - 1; r > lowest && !found; r-- {
				if v, ok := w.g.At(e.Kv.Key, r); ok {
					found = true
					zzverif.Assert(zzverif.BytesEq(e.Kv.Value, v.Val), "a delete event carries the previous value")
					zzverif.Assert(e.Kv.Revision == v.Rev, "a delete event names the previous modification revision")
				}
			}
			zzverif.Assert(found, "a delete event refers to a version that existed")
			snap[i] = vSnapEntry{}
		} else {
			snap[i] = vSnapEntry{true, e.Kv.Value, e.Revision}
		}
	}
	l2, err := w.b.List(vCtx(), &proto.RangeRequest{Key: rg[0], End: rg[1]})
	zzverif.Assert(err == nil, "final list: no error")
	cnt := 0
	for _, s := range snap {
		if s.present {
			cnt++
		}
	}
	zzverif.Assert(cnt == len(l2.Kvs), "store and watch stream converge: same keys")
	for _, kv := range l2.Kvs {
		s := snap[vNameIndex(kv.Key)]
		zzverif.Assert(s.present, "store and watch stream converge: every stored key was announced")
		zzverif.Assert(zzverif.BytesEq(s.val, kv.Value), "store and watch stream converge: value")
		zzverif.Assert(s.rev == kv.Revision, "store and watch stream converge: modification revision")
	}
	// every acknowledged write is durable: the final state has the values of the reference model
	want, _ := w.g.List(rg[0], rg[1], 0, 0)
	zzverif.Assert(len(want) == len(l2.Kvs), "acknowledged writes are durable: same keys as the reference model")
	for i := range want {
		zzverif.Assert(zzverif.BytesEq(l2.Kvs[i].Key, want[i].Key), "durable: key")
		zzverif.Assert(zzverif.BytesEq(l2.Kvs[i].Value, want[i].Val), "durable: value")
	}
	if zzverif.Param("arbitrary", 0) == 1 {
		if c := w.b.GetCurrentRevision(); c > w.dealt {
			w.dealt = c // the repair's own revisions
		}
		w.marksMayRepeat = true
		w.vInvariant(vNames[0], "after the repair")
	}
	zzverif.Cover("done")
}
