//go:build verif

package retry

import (
	"github.com/kubewharf/kubebrain/pkg/backend/common"
	"github.com/kubewharf/kubebrain/pkg/zzverif"
)

// VerifC09Queue: the queue of unresolved writes against a reference FIFO, for every sequence of up
// to n pushes and pops (several writes unresolved at the same time): the head is always the oldest
// unresolved write, nothing is lost or reordered, the size is exact, and an empty queue reports no
// minimal revision (so compaction is capped below the oldest unresolved write and only then).
func VerifC09Queue() {
	q := &eventQueue{}
	var ref []uint64
	next := uint64(10)
	n := zzverif.Param("steps", 6)
	for i := 0; i < n; i++ {
		if zzverif.Choose("op"+string(rune('0'+i)), 2) == 0 {
			next += 1 + zzverif.U64("gap"+string(rune('0'+i)))%3
			q.push(&common.WatchEvent{Revision: next})
			ref = append(ref, next)
			if len(ref) >= 3 {
				zzverif.Cover("three-pending")
			}
		} else if len(ref) > 0 {
			q.pop()
			ref = ref[1:]
			zzverif.Cover("popped")
		}
		zzverif.Assert(q.size() == len(ref), "size is the number of unresolved writes")
		h := q.getHead()
		if len(ref) == 0 {
			zzverif.Assert(h == nil, "an empty queue has no head")
		} else {
			zzverif.Assert(h != nil && h.event.Revision == ref[0], "the head is the oldest unresolved write")
			// everything pending is reachable from the head, in order
			k := 0
			for x := h; x != nil; x = x.next {
				zzverif.Assert(k < len(ref) && x.event.Revision == ref[k], "unresolved writes are kept in order, none is lost")
				k++
			}
			zzverif.Assert(k == len(ref), "every unresolved write is still queued")
		}
	}
	zzverif.Cover("done")
}
