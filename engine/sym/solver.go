package sym

import (
	"bufio"
	"fmt"
	"io"
	"os/exec"
	"strconv"
	"strings"
	"time"
)

type Result int

const (
	Unsat Result = iota
	Sat
	Unknown
)

func (r Result) String() string { return [...]string{"unsat", "sat", "unknown"}[r] }

// Solver is one persistent SMT solver process speaking SMT-LIB2 on stdin/stdout.
type Solver struct {
	cmd     *exec.Cmd
	in      io.WriteCloser
	out     *bufio.Reader
	Name    string
	Queries int
	NSat    int
	NUnsat  int
	NUnk    int
	Time    time.Duration
	Errors  []string
	Log     io.Writer // optional transcript
	seq     int
}

// SolverCmd returns argv for a solver kind: "z3", "z3-new", "cvc5".
func SolverCmd(kind string, timeoutMs int) []string {
	switch kind {
	case "cvc5":
		return []string{"cvc5", "--incremental", "--lang=smt2", "--produce-models", "--tlimit-per=" + strconv.Itoa(timeoutMs)}
	case "z3-new":
		return []string{"z3-new", "-in", "-smt2", "-t:" + strconv.Itoa(timeoutMs)}
	default:
		return []string{"z3", "-in", "-smt2", "-t:" + strconv.Itoa(timeoutMs)}
	}
}

func StartSolver(kind string, timeoutMs int) (*Solver, error) {
	argv := SolverCmd(kind, timeoutMs)
	cmd := exec.Command(argv[0], argv[1:]...)
	in, err := cmd.StdinPipe()
	if err != nil {
		return nil, err
	}
	outp, err := cmd.StdoutPipe()
	if err != nil {
		return nil, err
	}
	cmd.Stderr = cmd.Stdout
	if err := cmd.Start(); err != nil {
		return nil, err
	}
	s := &Solver{cmd: cmd, in: in, out: bufio.NewReaderSize(outp, 1<<16), Name: kind}
	init := "(set-option :produce-models true)\n"
	if kind == "cvc5" {
		init += "(set-logic ALL)\n" // cvc5 wants a logic before the first declaration
	}
	if _, err := s.roundtrip(init); err != nil {
		return nil, err
	}
	return s, nil
}

func (s *Solver) Close() {
	if s == nil || s.cmd == nil {
		return
	}
	s.in.Close()
	done := make(chan struct{})
	go func() { s.cmd.Wait(); close(done) }()
	select {
	case <-done:
	case <-time.After(2 * time.Second):
		s.cmd.Process.Kill()
	}
}

// roundtrip sends text followed by an echo sentinel and returns the lines printed before it.
func (s *Solver) roundtrip(text string) ([]string, error) {
	s.seq++
	sentinel := "@@done" + strconv.Itoa(s.seq)
	if s.Log != nil {
		io.WriteString(s.Log, text)
	}
	if _, err := io.WriteString(s.in, text+"(echo \""+sentinel+"\")\n"); err != nil {
		return nil, fmt.Errorf("solver write: %w", err)
	}
	var lines []string
	for {
		line, err := s.out.ReadString('\n')
		if err != nil {
			return lines, fmt.Errorf("solver died: %w (output so far: %v)", err, lines)
		}
		line = strings.TrimSpace(line)
		if strings.Trim(line, "\"") == sentinel {
			break
		}
		if line != "" {
			lines = append(lines, line)
		}
	}
	if s.Log != nil {
		for _, l := range lines {
			io.WriteString(s.Log, "; -> "+l+"\n")
		}
	}
	return lines, nil
}

// Send issues commands that expect no answer (declarations, asserts, push/pop).
// Any output is an error and is recorded.
func (s *Solver) Send(text string) error {
	lines, err := s.roundtrip(text)
	if err != nil {
		return err
	}
	for _, l := range lines {
		if l != "success" {
			s.Errors = append(s.Errors, l)
			return fmt.Errorf("solver said: %s", l)
		}
	}
	return nil
}

// Check runs (check-sat) preceded by pre (definitions etc.); any "(error" line or
// unexpected output makes the answer Unknown.
func (s *Solver) Check(pre string) (Result, error) {
	t0 := time.Now()
	lines, err := s.roundtrip(pre + "(check-sat)\n")
	s.Time += time.Since(t0)
	s.Queries++
	if err != nil {
		s.NUnk++
		return Unknown, err
	}
	res := Unknown
	bad := false
	for _, l := range lines {
		switch {
		case l == "sat":
			res = Sat
		case l == "unsat":
			res = Unsat
		case l == "unknown" || l == "timeout":
			res = Unknown
		default:
			bad = true
			s.Errors = append(s.Errors, l)
		}
	}
	if bad {
		res = Unknown
	}
	switch res {
	case Sat:
		s.NSat++
	case Unsat:
		s.NUnsat++
	default:
		s.NUnk++
	}
	return res, nil
}

// Model fetches values for vars after a Sat answer.
func (s *Solver) Model(vars []*Term) (map[string]uint64, error) {
	m := map[string]uint64{}
	if len(vars) == 0 {
		return m, nil
	}
	var sb strings.Builder
	sb.WriteString("(get-value (")
	nd := 0
	for _, v := range vars {
		if !v.defined {
			continue // never mentioned to the solver: unconstrained, reported as 0
		}
		nd++
		sb.WriteString(smtName(v))
		sb.WriteString(" ")
	}
	if nd == 0 {
		return m, nil
	}
	sb.WriteString("))\n")
	lines, err := s.roundtrip(sb.String())
	if err != nil {
		return nil, err
	}
	txt := strings.Join(lines, " ")
	if strings.Contains(txt, "(error") {
		return nil, fmt.Errorf("get-value: %s", txt)
	}
	// parse ((|name| value) ...)
	i := 0
	n := len(txt)
	for i < n {
		j := strings.IndexByte(txt[i:], '|')
		if j < 0 {
			break
		}
		i += j + 1
		k := strings.IndexByte(txt[i:], '|')
		if k < 0 {
			break
		}
		name := txt[i : i+k]
		i += k + 1
		// value token up to matching ')'
		for i < n && txt[i] == ' ' {
			i++
		}
		var val string
		if i < n && txt[i] == '(' { // (_ bvN w)
			e := strings.IndexByte(txt[i:], ')')
			val = txt[i : i+e+1]
			i += e + 1
		} else {
			e := strings.IndexAny(txt[i:], " )")
			val = txt[i : i+e]
			i += e
		}
		v, err := parseVal(val)
		if err != nil {
			return nil, fmt.Errorf("get-value %s: %v", name, err)
		}
		m[name] = v
	}
	return m, nil
}

func parseVal(s string) (uint64, error) {
	switch {
	case s == "true":
		return 1, nil
	case s == "false":
		return 0, nil
	case strings.HasPrefix(s, "#x"):
		return strconv.ParseUint(s[2:], 16, 64)
	case strings.HasPrefix(s, "#b"):
		return strconv.ParseUint(s[2:], 2, 64)
	case strings.HasPrefix(s, "(_ bv"):
		f := strings.Fields(s[5:])
		return strconv.ParseUint(f[0], 10, 64)
	}
	return 0, fmt.Errorf("cannot parse value %q", s)
}
