// Package sym: hash-consed bit-vector / Boolean terms with constant folding and
// SMT-LIB2 printing. Widths are 1..64 bits (W>0) or Boolean (W==0).
package sym

import (
	"fmt"
	"math/bits"
	"strconv"
	"strings"
)

type Op uint8

const (
	OpConst Op = iota
	OpVar
	OpNot // bool
	OpAnd // bool
	OpOr  // bool
	OpEq  // any -> bool
	OpIte // cond, a, b
	OpAdd
	OpSub
	OpMul
	OpUDiv
	OpURem
	OpSDiv
	OpSRem
	OpBAnd
	OpBOr
	OpBXor
	OpShl
	OpLShr
	OpAShr
	OpULt
	OpULe
	OpSLt
	OpSLe
	OpExtract // K = hi<<8|lo
	OpConcat
	OpZExt // to width W
	OpSExt // to width W
)

var opName = map[Op]string{OpNot: "not", OpAnd: "and", OpOr: "or", OpEq: "=", OpIte: "ite", OpAdd: "bvadd", OpSub: "bvsub",
	OpMul: "bvmul", OpUDiv: "bvudiv", OpURem: "bvurem", OpSDiv: "bvsdiv", OpSRem: "bvsrem", OpBAnd: "bvand", OpBOr: "bvor",
	OpBXor: "bvxor", OpShl: "bvshl", OpLShr: "bvlshr", OpAShr: "bvashr", OpULt: "bvult", OpULe: "bvule", OpSLt: "bvslt",
	OpSLe: "bvsle", OpConcat: "concat"}

type Term struct {
	Op      Op
	W       uint8
	A, B, C *Term
	K       uint64
	Name    string
	ID      int
	defined bool // emitted as define-fun / declare-const in the run's solver scope
}

type key struct {
	op      Op
	w       uint8
	a, b, c int
	k       uint64
	name    string
}

// Ctx is a per-run term factory (not safe for concurrent use).
type Ctx struct {
	tab   map[key]*Term
	next  int
	Vars  []*Term
	T, F  *Term
	nvars map[string]int
	small [512]*Term
}

func NewCtx() *Ctx {
	c := &Ctx{tab: map[key]*Term{}, nvars: map[string]int{}}
	c.T = c.mk(OpConst, 0, nil, nil, nil, 1, "")
	c.F = c.mk(OpConst, 0, nil, nil, nil, 0, "")
	return c
}

func id(t *Term) int {
	if t == nil {
		return -1
	}
	return t.ID
}

func (c *Ctx) mk(op Op, w uint8, a, b, cc *Term, k uint64, name string) *Term {
	ky := key{op, w, id(a), id(b), id(cc), k, name}
	if t, ok := c.tab[ky]; ok {
		return t
	}
	t := &Term{Op: op, W: w, A: a, B: b, C: cc, K: k, Name: name, ID: c.next}
	c.next++
	c.tab[ky] = t
	return t
}

func mask(w uint8) uint64 {
	if w >= 64 {
		return ^uint64(0)
	}
	return (uint64(1) << w) - 1
}

func (c *Ctx) Const(w uint8, v uint64) *Term {
	if w == 0 {
		panic("Const with width 0")
	}
	v &= mask(w)
	if v < 256 && (w == 8 || w == 64) {
		i := int(v)
		if w == 64 {
			i += 256
		}
		if t := c.small[i]; t != nil {
			return t
		}
		t := c.mk(OpConst, w, nil, nil, nil, v, "")
		c.small[i] = t
		return t
	}
	return c.mk(OpConst, w, nil, nil, nil, v, "")
}

func (c *Ctx) Bool(b bool) *Term {
	if b {
		return c.T
	}
	return c.F
}

// Var creates a fresh variable; names are made unique by a per-name counter so that
// re-execution of the same path produces the same names.
func (c *Ctx) Var(name string, w uint8) *Term {
	n := c.nvars[name]
	c.nvars[name] = n + 1
	full := name
	if n > 0 {
		full = name + "#" + strconv.Itoa(n)
	}
	t := c.mk(OpVar, w, nil, nil, nil, 0, full)
	c.Vars = append(c.Vars, t)
	return t
}

func (t *Term) IsConst() bool { return t.Op == OpConst }
func (t *Term) IsTrue() bool  { return t.Op == OpConst && t.W == 0 && t.K == 1 }
func (t *Term) IsFalse() bool { return t.Op == OpConst && t.W == 0 && t.K == 0 }

// Signed value of a constant.
func (t *Term) Int() int64 {
	if t.W >= 64 {
		return int64(t.K)
	}
	sh := 64 - uint(t.W)
	return int64(t.K<<sh) >> sh
}

func sext(v uint64, w uint8) int64 {
	if w >= 64 {
		return int64(v)
	}
	sh := 64 - uint(w)
	return int64(v<<sh) >> sh
}

func (c *Ctx) Not(a *Term) *Term {
	if a.W != 0 {
		panic("Not on non-bool")
	}
	if a.Op == OpConst {
		return c.Bool(a.K == 0)
	}
	if a.Op == OpNot {
		return a.A
	}
	return c.mk(OpNot, 0, a, nil, nil, 0, "")
}

func (c *Ctx) And(a, b *Term) *Term {
	if a.IsFalse() || b.IsFalse() {
		return c.F
	}
	if a.IsTrue() {
		return b
	}
	if b.IsTrue() {
		return a
	}
	if a == b {
		return a
	}
	if (a.Op == OpNot && a.A == b) || (b.Op == OpNot && b.A == a) {
		return c.F
	}
	if a.ID > b.ID {
		a, b = b, a
	}
	return c.mk(OpAnd, 0, a, b, nil, 0, "")
}

func (c *Ctx) Or(a, b *Term) *Term {
	if a.IsTrue() || b.IsTrue() {
		return c.T
	}
	if a.IsFalse() {
		return b
	}
	if b.IsFalse() {
		return a
	}
	if a == b {
		return a
	}
	if (a.Op == OpNot && a.A == b) || (b.Op == OpNot && b.A == a) {
		return c.T
	}
	if a.ID > b.ID {
		a, b = b, a
	}
	return c.mk(OpOr, 0, a, b, nil, 0, "")
}

func (c *Ctx) Implies(a, b *Term) *Term { return c.Or(c.Not(a), b) }

func (c *Ctx) Eq(a, b *Term) *Term {
	if a.W != b.W {
		panic(fmt.Sprintf("Eq width mismatch %d %d", a.W, b.W))
	}
	if a == b {
		return c.T
	}
	if a.Op == OpConst && b.Op == OpConst {
		return c.Bool(a.K == b.K)
	}
	if a.W == 0 {
		if a.IsTrue() {
			return b
		}
		if b.IsTrue() {
			return a
		}
		if a.IsFalse() {
			return c.Not(b)
		}
		if b.IsFalse() {
			return c.Not(a)
		}
	}
	// zext(x) == const
	if b.Op == OpConst && a.Op == OpZExt {
		if b.K&^mask(a.A.W) != 0 {
			return c.F
		}
		return c.Eq(a.A, c.Const(a.A.W, b.K))
	}
	if a.Op == OpConst && b.Op == OpZExt {
		return c.Eq(b, a)
	}
	// ite(c,k1,k2) == k  with constants
	if b.Op == OpConst && a.Op == OpIte && a.B.Op == OpConst && a.C.Op == OpConst {
		e1, e2 := a.B.K == b.K, a.C.K == b.K
		switch {
		case e1 && e2:
			return c.T
		case e1:
			return a.A
		case e2:
			return c.Not(a.A)
		default:
			return c.F
		}
	}
	if a.Op == OpConst && b.Op == OpIte {
		return c.Eq(b, a)
	}
	if a.ID > b.ID {
		a, b = b, a
	}
	return c.mk(OpEq, 0, a, b, nil, 0, "")
}

func (c *Ctx) Ite(cond, a, b *Term) *Term {
	if cond.IsTrue() {
		return a
	}
	if cond.IsFalse() {
		return b
	}
	if a == b {
		return a
	}
	if a.W == 0 {
		if a.IsTrue() && b.IsFalse() {
			return cond
		}
		if a.IsFalse() && b.IsTrue() {
			return c.Not(cond)
		}
		if a.IsTrue() {
			return c.Or(cond, b)
		}
		if a.IsFalse() {
			return c.And(c.Not(cond), b)
		}
		if b.IsTrue() {
			return c.Or(c.Not(cond), a)
		}
		if b.IsFalse() {
			return c.And(cond, a)
		}
	}
	return c.mk(OpIte, a.W, cond, a, b, 0, "")
}

func foldBin(op Op, w uint8, x, y uint64) (uint64, bool) {
	m := mask(w)
	switch op {
	case OpAdd:
		return (x + y) & m, true
	case OpSub:
		return (x - y) & m, true
	case OpMul:
		return (x * y) & m, true
	case OpUDiv:
		if y == 0 {
			return m, true
		}
		return x / y, true
	case OpURem:
		if y == 0 {
			return x, true
		}
		return x % y, true
	case OpSDiv:
		if y == 0 {
			return 0, false
		}
		sx, sy := sext(x, w), sext(y, w)
		if sy == -1 {
			return uint64(-sx) & m, true
		}
		return uint64(sx/sy) & m, true
	case OpSRem:
		if y == 0 {
			return 0, false
		}
		sx, sy := sext(x, w), sext(y, w)
		if sy == -1 {
			return 0, true
		}
		return uint64(sx%sy) & m, true
	case OpBAnd:
		return x & y, true
	case OpBOr:
		return x | y, true
	case OpBXor:
		return x ^ y, true
	case OpShl:
		if y >= uint64(w) {
			return 0, true
		}
		return (x << y) & m, true
	case OpLShr:
		if y >= uint64(w) {
			return 0, true
		}
		return x >> y, true
	case OpAShr:
		sx := sext(x, w)
		if y >= uint64(w) {
			y = uint64(w) - 1
		}
		return uint64(sx>>y) & m, true
	}
	return 0, false
}

// Bin builds an arithmetic/bitwise binary term (both operands width w).
func (c *Ctx) Bin(op Op, a, b *Term) *Term {
	if a.W != b.W || a.W == 0 {
		panic(fmt.Sprintf("Bin %v width mismatch %d %d", op, a.W, b.W))
	}
	w := a.W
	if a.Op == OpConst && b.Op == OpConst {
		if v, ok := foldBin(op, w, a.K, b.K); ok {
			return c.Const(w, v)
		}
	}
	switch op {
	case OpAdd:
		if a.Op == OpConst && a.K == 0 {
			return b
		}
		if b.Op == OpConst && b.K == 0 {
			return a
		}
		// (x + k1) + k2
		if b.Op == OpConst && a.Op == OpAdd && a.B.Op == OpConst {
			return c.Bin(OpAdd, a.A, c.Const(w, a.B.K+b.K))
		}
		if a.Op == OpConst {
			a, b = b, a
		}
	case OpSub:
		if b.Op == OpConst && b.K == 0 {
			return a
		}
		if a == b {
			return c.Const(w, 0)
		}
		if b.Op == OpConst {
			return c.Bin(OpAdd, a, c.Const(w, -b.K))
		}
	case OpMul:
		if a.Op == OpConst {
			a, b = b, a
		}
		if b.Op == OpConst {
			if b.K == 0 {
				return b
			}
			if b.K == 1 {
				return a
			}
		}
	case OpBAnd:
		if a.Op == OpConst {
			a, b = b, a
		}
		if b.Op == OpConst {
			if b.K == 0 {
				return b
			}
			if b.K == mask(w) {
				return a
			}
		}
		if a == b {
			return a
		}
	case OpBOr, OpBXor:
		if a.Op == OpConst {
			a, b = b, a
		}
		if b.Op == OpConst && b.K == 0 {
			return a
		}
		if (a.Op == OpConcat || a.Op == OpZExt) && (b.Op == OpConcat || b.Op == OpZExt) {
			if r := c.mergeLayouts(a, b); r != nil {
				return r
			}
		}
		if a == b {
			if op == OpBOr {
				return a
			}
			return c.Const(w, 0)
		}
	case OpShl, OpLShr, OpAShr:
		if b.Op == OpConst {
			if b.K == 0 {
				return a
			}
			if b.K >= uint64(w) && op != OpAShr {
				return c.Const(w, 0)
			}
			// shift of zext by constant: (zext8→64 x) << 8k  => concat
			if op == OpLShr && b.K < uint64(w) {
				// lshr by k = zext(extract[w-1:k])
				return c.ZExt(c.Extract(a, int(w)-1, int(b.K)), w)
			}
			if op == OpShl && b.K < uint64(w) {
				lowbits := int(w) - int(b.K)
				return c.Concat(c.Extract(a, lowbits-1, 0), c.Const(uint8(b.K), 0))
			}
		}
	case OpURem, OpUDiv:
		if b.Op == OpConst && b.K != 0 && bits.OnesCount64(b.K) == 1 {
			k := bits.TrailingZeros64(b.K)
			if op == OpURem {
				if k == 0 {
					return c.Const(w, 0)
				}
				return c.ZExt(c.Extract(a, k-1, 0), w)
			}
			return c.Bin(OpLShr, a, c.Const(w, uint64(k)))
		}
	}
	return c.mk(op, w, a, b, nil, 0, "")
}

func (c *Ctx) Neg(a *Term) *Term  { return c.Bin(OpSub, c.Const(a.W, 0), a) }
func (c *Ctx) BNot(a *Term) *Term { return c.Bin(OpBXor, a, c.Const(a.W, mask(a.W))) }

// Cmp builds a comparison (OpULt, OpULe, OpSLt, OpSLe).
func (c *Ctx) Cmp(op Op, a, b *Term) *Term {
	if a.W != b.W || a.W == 0 {
		panic("Cmp width mismatch")
	}
	if a.Op == OpConst && b.Op == OpConst {
		switch op {
		case OpULt:
			return c.Bool(a.K < b.K)
		case OpULe:
			return c.Bool(a.K <= b.K)
		case OpSLt:
			return c.Bool(sext(a.K, a.W) < sext(b.K, b.W))
		case OpSLe:
			return c.Bool(sext(a.K, a.W) <= sext(b.K, b.W))
		}
	}
	if a == b {
		return c.Bool(op == OpULe || op == OpSLe)
	}
	if op == OpULt && b.Op == OpConst && b.K == 0 {
		return c.F
	}
	if op == OpULe && a.Op == OpConst && a.K == 0 {
		return c.T
	}
	if op == OpULe && b.Op == OpConst && b.K == mask(b.W) {
		return c.T
	}
	if op == OpULt && a.Op == OpConst && a.K == mask(a.W) {
		return c.F
	}
	// zext comparisons against constants
	if a.Op == OpZExt && b.Op == OpConst && (op == OpULt || op == OpULe) {
		if b.K > mask(a.A.W) {
			return c.T
		}
		return c.Cmp(op, a.A, c.Const(a.A.W, b.K))
	}
	if b.Op == OpZExt && a.Op == OpConst && (op == OpULt || op == OpULe) {
		if a.K > mask(b.A.W) {
			return c.F
		}
		return c.Cmp(op, c.Const(b.A.W, a.K), b.A)
	}
	if a.Op == OpZExt && b.Op == OpZExt && a.A.W == b.A.W {
		if op == OpULt || op == OpULe {
			return c.Cmp(op, a.A, b.A)
		}
		if a.A.W < a.W { // sign bit clear on both sides
			if op == OpSLt {
				return c.Cmp(OpULt, a.A, b.A)
			}
			return c.Cmp(OpULe, a.A, b.A)
		}
	}
	return c.mk(op, 0, a, b, nil, 0, "")
}

func (c *Ctx) Extract(a *Term, hi, lo int) *Term {
	if hi < lo || hi >= int(a.W) || lo < 0 {
		panic(fmt.Sprintf("bad extract [%d:%d] of width %d", hi, lo, a.W))
	}
	w := uint8(hi - lo + 1)
	if w == a.W {
		return a
	}
	if a.Op == OpConst {
		return c.Const(w, a.K>>uint(lo))
	}
	switch a.Op {
	case OpExtract:
		ilo := int(a.K & 0xff)
		return c.Extract(a.A, hi+ilo, lo+ilo)
	case OpZExt:
		iw := int(a.A.W)
		if hi < iw {
			return c.Extract(a.A, hi, lo)
		}
		if lo >= iw {
			return c.Const(w, 0)
		}
		return c.ZExt(c.Extract(a.A, iw-1, lo), w)
	case OpSExt:
		iw := int(a.A.W)
		if hi < iw {
			return c.Extract(a.A, hi, lo)
		}
	case OpConcat:
		bw := int(a.B.W)
		if hi < bw {
			return c.Extract(a.B, hi, lo)
		}
		if lo >= bw {
			return c.Extract(a.A, hi-bw, lo-bw)
		}
		return c.Concat(c.Extract(a.A, hi-bw, 0), c.Extract(a.B, bw-1, lo))
	case OpBOr, OpBAnd, OpBXor:
		return c.Bin(a.Op, c.Extract(a.A, hi, lo), c.Extract(a.B, hi, lo))
	case OpIte:
		if a.B.Op == OpConst || a.C.Op == OpConst {
			return c.Ite(a.A, c.Extract(a.B, hi, lo), c.Extract(a.C, hi, lo))
		}
	}
	return c.mk(OpExtract, w, a, nil, nil, uint64(hi)<<8|uint64(lo), "")
}

func (c *Ctx) Concat(a, b *Term) *Term {
	w := int(a.W) + int(b.W)
	if w > 64 {
		panic("concat wider than 64")
	}
	if a.Op == OpConst && b.Op == OpConst {
		return c.Const(uint8(w), a.K<<uint(b.W)|b.K)
	}
	if a.Op == OpConst && a.K == 0 {
		return c.ZExt(b, uint8(w))
	}
	// concat(extract(x,hi,m+1), extract(x,m,lo)) => extract(x,hi,lo)
	if a.Op == OpExtract && b.Op == OpExtract && a.A == b.A && int(a.K&0xff) == int(b.K>>8)+1 {
		return c.Extract(a.A, int(a.K>>8), int(b.K&0xff))
	}
	return c.mk(OpConcat, uint8(w), a, b, nil, 0, "")
}

func (c *Ctx) ZExt(a *Term, w uint8) *Term {
	if w == a.W {
		return a
	}
	if w < a.W {
		panic("zext to narrower")
	}
	if a.Op == OpConst {
		return c.Const(w, a.K)
	}
	if a.Op == OpZExt {
		return c.ZExt(a.A, w)
	}
	return c.mk(OpZExt, w, a, nil, nil, 0, "")
}

func (c *Ctx) SExt(a *Term, w uint8) *Term {
	if w == a.W {
		return a
	}
	if w < a.W {
		panic("sext to narrower")
	}
	if a.Op == OpConst {
		return c.Const(w, uint64(sext(a.K, a.W)))
	}
	if a.Op == OpZExt { // sign bit is zero
		return c.ZExt(a.A, w)
	}
	return c.mk(OpSExt, w, a, nil, nil, 0, "")
}

// Resize converts a to width w, sign- or zero-extending per signed, or truncating.
func (c *Ctx) Resize(a *Term, w uint8, signed bool) *Term {
	switch {
	case w == a.W:
		return a
	case w < a.W:
		return c.Extract(a, int(w)-1, 0)
	case signed:
		return c.SExt(a, w)
	default:
		return c.ZExt(a, w)
	}
}

func sortName(w uint8) string {
	if w == 0 {
		return "Bool"
	}
	return "(_ BitVec " + strconv.Itoa(int(w)) + ")"
}

func smtName(t *Term) string {
	switch t.Op {
	case OpConst:
		if t.W == 0 {
			if t.K == 1 {
				return "true"
			}
			return "false"
		}
		return "(_ bv" + strconv.FormatUint(t.K, 10) + " " + strconv.Itoa(int(t.W)) + ")"
	case OpVar:
		return "|" + t.Name + "|"
	}
	return "t" + strconv.Itoa(t.ID)
}

func (t *Term) body() string {
	switch t.Op {
	case OpExtract:
		return fmt.Sprintf("((_ extract %d %d) %s)", t.K>>8, t.K&0xff, smtName(t.A))
	case OpZExt:
		return fmt.Sprintf("((_ zero_extend %d) %s)", int(t.W)-int(t.A.W), smtName(t.A))
	case OpSExt:
		return fmt.Sprintf("((_ sign_extend %d) %s)", int(t.W)-int(t.A.W), smtName(t.A))
	case OpNot:
		return "(not " + smtName(t.A) + ")"
	case OpIte:
		return "(ite " + smtName(t.A) + " " + smtName(t.B) + " " + smtName(t.C) + ")"
	}
	return "(" + opName[t.Op] + " " + smtName(t.A) + " " + smtName(t.B) + ")"
}

// Define appends to sb the declarations/definitions (not yet emitted in this Ctx's
// solver scope) needed to mention t, and returns the name that denotes t.
func (c *Ctx) Define(sb *strings.Builder, t *Term) string {
	c.define(sb, t)
	return smtName(t)
}

func (c *Ctx) define(sb *strings.Builder, t *Term) {
	if t.defined || t.Op == OpConst {
		return
	}
	// iterative post-order to avoid deep recursion on long chains
	type fr struct {
		t *Term
		i int
	}
	st := []fr{{t, 0}}
	for len(st) > 0 {
		f := &st[len(st)-1]
		var ch *Term
		switch f.i {
		case 0:
			ch = f.t.A
		case 1:
			ch = f.t.B
		case 2:
			ch = f.t.C
		}
		if f.i < 3 {
			f.i++
			if ch != nil && !ch.defined && ch.Op != OpConst {
				st = append(st, fr{ch, 0})
			}
			continue
		}
		x := f.t
		st = st[:len(st)-1]
		if x.defined {
			continue
		}
		x.defined = true
		if x.Op == OpVar {
			fmt.Fprintf(sb, "(declare-const %s %s)\n", smtName(x), sortName(x.W))
		} else {
			fmt.Fprintf(sb, "(define-fun %s () %s %s)\n", smtName(x), sortName(x.W), x.body())
		}
	}
}

// String renders a term as a nested expression (for logs and evidence samples).
func (t *Term) String() string {
	var sb strings.Builder
	t.str(&sb, 0)
	return sb.String()
}

func (t *Term) str(sb *strings.Builder, depth int) {
	if depth > 12 {
		sb.WriteString("…")
		return
	}
	switch t.Op {
	case OpConst:
		if t.W == 0 {
			sb.WriteString(strconv.FormatBool(t.K == 1))
		} else {
			sb.WriteString(strconv.FormatUint(t.K, 10))
		}
	case OpVar:
		sb.WriteString(t.Name)
	case OpExtract:
		t.A.str(sb, depth+1)
		fmt.Fprintf(sb, "[%d:%d]", t.K>>8, t.K&0xff)
	case OpZExt, OpSExt:
		if t.Op == OpZExt {
			sb.WriteString("zx(")
		} else {
			sb.WriteString("sx(")
		}
		t.A.str(sb, depth+1)
		sb.WriteString(")")
	default:
		sb.WriteString("(" + opName[t.Op])
		for _, a := range []*Term{t.A, t.B, t.C} {
			if a != nil {
				sb.WriteString(" ")
				a.str(sb, depth+1)
			}
		}
		sb.WriteString(")")
	}
}

// Eval evaluates t under a model (variable name -> value); missing variables are 0.
func Eval(t *Term, m map[string]uint64, memo map[*Term]uint64) uint64 {
	if v, ok := memo[t]; ok {
		return v
	}
	var v uint64
	switch t.Op {
	case OpConst:
		v = t.K
	case OpVar:
		v = m[t.Name] & maskB(t.W)
	case OpNot:
		v = 1 - Eval(t.A, m, memo)
	case OpAnd:
		v = Eval(t.A, m, memo) & Eval(t.B, m, memo)
	case OpOr:
		v = Eval(t.A, m, memo) | Eval(t.B, m, memo)
	case OpEq:
		if Eval(t.A, m, memo) == Eval(t.B, m, memo) {
			v = 1
		}
	case OpIte:
		if Eval(t.A, m, memo) == 1 {
			v = Eval(t.B, m, memo)
		} else {
			v = Eval(t.C, m, memo)
		}
	case OpULt, OpULe, OpSLt, OpSLe:
		a, b := Eval(t.A, m, memo), Eval(t.B, m, memo)
		var r bool
		switch t.Op {
		case OpULt:
			r = a < b
		case OpULe:
			r = a <= b
		case OpSLt:
			r = sext(a, t.A.W) < sext(b, t.A.W)
		case OpSLe:
			r = sext(a, t.A.W) <= sext(b, t.A.W)
		}
		if r {
			v = 1
		}
	case OpExtract:
		w := uint8(t.K>>8) - uint8(t.K&0xff) + 1
		v = (Eval(t.A, m, memo) >> (t.K & 0xff)) & mask(w)
	case OpConcat:
		v = Eval(t.A, m, memo)<<t.B.W | Eval(t.B, m, memo)
	case OpZExt:
		v = Eval(t.A, m, memo)
	case OpSExt:
		v = uint64(sext(Eval(t.A, m, memo), t.A.W)) & mask(t.W)
	default:
		a, b := Eval(t.A, m, memo), Eval(t.B, m, memo)
		r, ok := foldBin(t.Op, t.W, a, b)
		if !ok { // division by zero under SMT-LIB semantics
			switch t.Op {
			case OpSDiv:
				if sext(a, t.W) < 0 {
					r = 1
				} else {
					r = mask(t.W)
				}
			case OpSRem:
				r = a
			}
		}
		v = r
	}
	memo[t] = v
	return v
}

func maskB(w uint8) uint64 {
	if w == 0 {
		return 1
	}
	return mask(w)
}

type seg struct {
	lo, hi int
	t      *Term
}

func layout(t *Term, shift int, out []seg) []seg {
	switch t.Op {
	case OpConst:
		if t.K == 0 {
			return out
		}
	case OpZExt:
		return layout(t.A, shift, out)
	case OpConcat:
		out = layout(t.B, shift, out)
		return layout(t.A, shift+int(t.B.W), out)
	}
	return append(out, seg{shift, shift + int(t.W) - 1, t})
}

// mergeLayouts rewrites a|b (== a^b == a+b) when the non-zero bit ranges of a and b are
// disjoint: the result is the concatenation of the pieces, which lets byte-wise
// reassembly of a word fold back to the word itself.
func (c *Ctx) mergeLayouts(a, b *Term) *Term {
	segs := layout(b, 0, layout(a, 0, nil))
	// insertion sort by lo descending
	for i := 1; i < len(segs); i++ {
		for j := i; j > 0 && segs[j].lo > segs[j-1].lo; j-- {
			segs[j], segs[j-1] = segs[j-1], segs[j]
		}
	}
	for i := 1; i < len(segs); i++ {
		if segs[i].hi >= segs[i-1].lo {
			return nil
		}
	}
	w := int(a.W)
	var res *Term
	app := func(t *Term) {
		if res == nil {
			res = t
		} else {
			res = c.Concat(res, t)
		}
	}
	cur := w
	for _, s := range segs {
		if s.hi+1 < cur {
			app(c.Const(uint8(cur-s.hi-1), 0))
		}
		app(s.t)
		cur = s.lo
	}
	if cur > 0 {
		app(c.Const(uint8(cur), 0))
	}
	if res == nil {
		return c.Const(uint8(w), 0)
	}
	return res
}
