package exec

import (
	"fmt"
	"go/constant"
	"go/token"
	"go/types"
	"strings"

	"golang.org/x/tools/go/ssa"

	"gosym/sym"
)

// targetPanic: the program under execution panicked (explicitly or by a run-time check).
type targetPanic struct {
	v   value
	msg string
}

func (p targetPanic) String() string {
	if p.msg != "" {
		return p.msg
	}
	return toString(p.v)
}

func rtPanic(format string, a ...interface{}) targetPanic {
	return targetPanic{msg: "runtime error: " + fmt.Sprintf(format, a...)}
}

func (in *interp) constValue(c *ssa.Const) value {
	if c.Value == nil {
		return in.zero(c.Type())
	}
	if t, ok := c.Type().Underlying().(*types.Basic); ok {
		if w, signed, ok := intInfo(t); ok {
			if w == 0 {
				return in.ctx.Bool(constant.BoolVal(c.Value))
			}
			if signed {
				return in.ctx.Const(w, uint64(c.Int64()))
			}
			return in.ctx.Const(w, c.Uint64())
		}
		switch {
		case t.Info()&types.IsFloat != 0:
			return c.Float64()
		case t.Info()&types.IsString != 0:
			if c.Value.Kind() == constant.String {
				return constant.StringVal(c.Value)
			}
			return string(rune(c.Int64()))
		}
	}
	panic(fmt.Sprintf("constValue: %s", c))
}

func (in *interp) mkInt(n int) *sym.Term { return in.ctx.Const(64, uint64(int64(n))) }

// concInt returns the concrete value of an integer term, deciding (case split) when symbolic.
// lo..hi is the admissible range used for the split; values outside are reported as ok=false
// on a separate path.
func (in *interp) concInt(v value, lo, hi int64, what string) (int64, bool) {
	t := v.(*sym.Term)
	if t.IsConst() {
		x := t.Int()
		if t.W < 64 {
			// narrow types: caller passes terms already extended; keep signed view
		}
		return x, x >= lo && x <= hi
	}
	return in.cur().splitInt(t, lo, hi, what)
}

func asInt(v value) int64 {
	t := v.(*sym.Term)
	if !t.IsConst() {
		panic(fmt.Sprintf("internal: symbolic integer where a concrete one is required: %s", t))
	}
	return t.Int()
}

// ext64 extends an integer term of static type t to 64 bits.
func (in *interp) ext64(v value, t types.Type) *sym.Term {
	x := v.(*sym.Term)
	_, signed, _ := intInfo(t)
	return in.ctx.Resize(x, 64, signed)
}

func (in *interp) binop(op token.Token, tx, ty types.Type, x, y value) value {
	c := in.ctx
	// nil comparisons and aggregate equality
	switch op {
	case token.EQL:
		return in.eq(tx, ty, x, y)
	case token.NEQ:
		return c.Not(in.eq(tx, ty, x, y))
	}
	if isString(tx) {
		a, b := x, y
		switch op {
		case token.ADD:
			as, aok := a.(string)
			bs, bok := b.(string)
			if aok && bok {
				return as + bs
			}
			return mkStr(append(append([]*sym.Term{}, in.strBytes(a)...), in.strBytes(b)...))
		case token.LSS:
			return in.bytesLt(in.strBytes(a), in.strBytes(b))
		case token.GTR:
			return in.bytesLt(in.strBytes(b), in.strBytes(a))
		case token.LEQ:
			return c.Not(in.bytesLt(in.strBytes(b), in.strBytes(a)))
		case token.GEQ:
			return c.Not(in.bytesLt(in.strBytes(a), in.strBytes(b)))
		}
		panic("bad string op " + op.String())
	}
	if isFloat(tx) {
		a, b := x.(float64), y.(float64)
		switch op {
		case token.ADD:
			return a + b
		case token.SUB:
			return a - b
		case token.MUL:
			return a * b
		case token.QUO:
			return a / b
		case token.LSS:
			return c.Bool(a < b)
		case token.LEQ:
			return c.Bool(a <= b)
		case token.GTR:
			return c.Bool(a > b)
		case token.GEQ:
			return c.Bool(a >= b)
		}
		panic("bad float op " + op.String())
	}
	w, signed, ok := intInfo(tx)
	if !ok {
		panic(fmt.Sprintf("binop %s on %s", op, tx))
	}
	a, b := x.(*sym.Term), y.(*sym.Term)
	if w == 0 { // bool &, |, ^ do not exist in Go; only ==/!= handled above
		panic("bool binop " + op.String())
	}
	switch op {
	case token.ADD:
		return c.Bin(sym.OpAdd, a, b)
	case token.SUB:
		return c.Bin(sym.OpSub, a, b)
	case token.MUL:
		return c.Bin(sym.OpMul, a, b)
	case token.QUO, token.REM:
		if in.cur().branch(c.Eq(b, c.Const(w, 0)), "div-by-zero") {
			panic(rtPanic("integer divide by zero"))
		}
		if signed {
			if op == token.QUO {
				return c.Bin(sym.OpSDiv, a, b)
			}
			return c.Bin(sym.OpSRem, a, b)
		}
		if op == token.QUO {
			return c.Bin(sym.OpUDiv, a, b)
		}
		return c.Bin(sym.OpURem, a, b)
	case token.AND:
		return c.Bin(sym.OpBAnd, a, b)
	case token.OR:
		return c.Bin(sym.OpBOr, a, b)
	case token.XOR:
		return c.Bin(sym.OpBXor, a, b)
	case token.AND_NOT:
		return c.Bin(sym.OpBAnd, a, c.BNot(b))
	case token.SHL, token.SHR:
		wy, sy, _ := intInfo(ty)
		if sy {
			if in.cur().branch(c.Cmp(sym.OpSLt, b, c.Const(wy, 0)), "neg-shift") {
				panic(rtPanic("negative shift amount"))
			}
		}
		sop := sym.OpShl
		if op == token.SHR {
			sop = sym.OpLShr
			if signed {
				sop = sym.OpAShr
			}
		}
		if wy <= w {
			return c.Bin(sop, a, c.ZExt(b, w))
		}
		// shift count wider than operand: saturate
		inRange := c.Cmp(sym.OpULt, b, c.Const(wy, uint64(w)))
		sh := c.Bin(sop, a, c.Extract(b, int(w)-1, 0))
		var over *sym.Term
		if sop == sym.OpAShr {
			over = c.Bin(sym.OpAShr, a, c.Const(w, uint64(w)-1))
		} else {
			over = c.Const(w, 0)
		}
		return c.Ite(inRange, sh, over)
	case token.LSS:
		if signed {
			return c.Cmp(sym.OpSLt, a, b)
		}
		return c.Cmp(sym.OpULt, a, b)
	case token.LEQ:
		if signed {
			return c.Cmp(sym.OpSLe, a, b)
		}
		return c.Cmp(sym.OpULe, a, b)
	case token.GTR:
		if signed {
			return c.Cmp(sym.OpSLt, b, a)
		}
		return c.Cmp(sym.OpULt, b, a)
	case token.GEQ:
		if signed {
			return c.Cmp(sym.OpSLe, b, a)
		}
		return c.Cmp(sym.OpULe, b, a)
	}
	panic(fmt.Sprintf("invalid binary op: %s", op))
}

func isNilConstType(t types.Type) bool {
	b, ok := t.(*types.Basic)
	return ok && b.Kind() == types.UntypedNil
}

func (in *interp) eq(tx, ty types.Type, x, y value) *sym.Term {
	switch tx.Underlying().(type) {
	case *types.Slice, *types.Map, *types.Signature:
		// only comparable against nil
		return in.ctx.Bool(in.isNil(x) == true && in.isNil(y) == true || (in.isNil(x) && in.isNil(y)))
	}
	// one side may be the nil constant of pointer/chan/interface type: zero() gave typed nil already
	return in.equals(tx, x, y)
}

func (in *interp) unop(instr *ssa.UnOp, x value) value {
	c := in.ctx
	switch instr.Op {
	case token.ARROW:
		return in.chanRecv(x.(*channel), instr.CommaOk, instr.X.Type().Underlying().(*types.Chan).Elem())
	case token.SUB:
		if f, ok := x.(float64); ok {
			return -f
		}
		return c.Neg(x.(*sym.Term))
	case token.MUL:
		p := x.(*value)
		if p == nil {
			panic(rtPanic("invalid memory address or nil pointer dereference"))
		}
		in.onRead(p)
		return load(deref(instr.X.Type()), p)
	case token.NOT:
		return c.Not(x.(*sym.Term))
	case token.XOR:
		return c.BNot(x.(*sym.Term))
	}
	panic(fmt.Sprintf("invalid unary op %s %T", instr.Op, x))
}

func (in *interp) conv(tdst, tsrc types.Type, x value) value {
	usrc := tsrc.Underlying()
	udst := tdst.Underlying()
	c := in.ctx
	switch usrc := usrc.(type) {
	case *types.Pointer:
		if b, ok := udst.(*types.Basic); ok && b.Kind() == types.UnsafePointer {
			return x
		}
		if _, ok := udst.(*types.Pointer); ok {
			return x
		}
	case *types.Slice:
		if isString(udst) {
			eb, ok := usrc.Elem().Underlying().(*types.Basic)
			if ok && eb.Kind() == types.Byte {
				return mkStr(in.sliceBytes(x.([]value)))
			}
			panic("[]rune -> string unsupported")
		}
	case *types.Basic:
		if usrc.Kind() == types.UnsafePointer {
			return x
		}
		if isString(usrc) {
			switch udst := udst.(type) {
			case *types.Slice:
				eb := udst.Elem().Underlying().(*types.Basic)
				if eb.Kind() == types.Byte {
					// the runtime rounds the allocation up to a size class: the result has spare
					// capacity (cap 8 for a 4-byte string), so an append to it may write in place
					b := in.strBytes(x)
					out := make([]value, len(b), roundupsize(len(b)))
					for i, t := range b {
						out[i] = t
					}
					return out
				}
				if s, ok := x.(string); ok { // []rune
					var res []value
					for _, r := range s {
						res = append(res, c.Const(32, uint64(r)))
					}
					return res
				}
				panic("symbolic string -> []rune unsupported")
			case *types.Basic:
				if isString(udst) {
					return x
				}
			}
			break
		}
		sw, ssigned, sok := intInfo(usrc)
		if sok && sw > 0 {
			if isString(udst) {
				t := x.(*sym.Term)
				if !t.IsConst() {
					panic("symbolic integer -> string unsupported")
				}
				return string(rune(t.Int()))
			}
			if dw, _, dok := intInfo(udst); dok && dw > 0 {
				return c.Resize(x.(*sym.Term), dw, ssigned)
			}
			if isFloat(udst) {
				t := x.(*sym.Term)
				if !t.IsConst() {
					// floats only carry latencies / metric values; keep them opaque
					return float64(0)
				}
				if ssigned {
					return float64(t.Int())
				}
				return float64(t.K)
			}
		}
		if isFloat(usrc) {
			f := x.(float64)
			if isFloat(udst) {
				return f
			}
			if dw, dsigned, dok := intInfo(udst); dok && dw > 0 {
				if dsigned {
					return c.Const(dw, uint64(int64(f)))
				}
				return c.Const(dw, uint64(f))
			}
		}
	}
	panic(fmt.Sprintf("unsupported conversion: %s -> %s, dynamic type %T", tsrc, tdst, x))
}

// sliceOp implements x[lo:hi:max].
func (in *interp) sliceOp(instr *ssa.Slice, x, lo, hi, max value) value {
	var Len, Cap int
	switch x := x.(type) {
	case string, *symstr:
		Len = strLen(x)
		Cap = Len
	case []value:
		Len, Cap = len(x), cap(x)
	case *value:
		if x == nil {
			panic(rtPanic("slice of nil array pointer"))
		}
		a := (*x).(array)
		Len, Cap = len(a), len(a)
	default:
		panic(fmt.Sprintf("slice: unexpected X type: %T", x))
	}
	_, isStr := x.(string)
	_, isSym := x.(*symstr)
	limit := Cap
	if isStr || isSym {
		limit = Len
	}
	l, h, m := int64(0), int64(Len), int64(Cap)
	var ok bool
	if max != nil {
		if m, ok = in.concInt(max, 0, int64(Cap), "slice-max"); !ok {
			panic(rtPanic("slice bounds out of range [::%s] with capacity %d", toString(max), Cap))
		}
		limit = int(m)
	}
	if hi != nil {
		if h, ok = in.concInt(hi, 0, int64(limit), "slice-hi"); !ok {
			panic(rtPanic("slice bounds out of range [:%s] with capacity %d", toString(hi), limit))
		}
	}
	if lo != nil {
		if l, ok = in.concInt(lo, 0, h, "slice-lo"); !ok {
			panic(rtPanic("slice bounds out of range [%s:%d]", toString(lo), h))
		}
	}
	if l > h {
		panic(rtPanic("slice bounds out of range [%d:%d]", l, h))
	}
	switch x := x.(type) {
	case string:
		return x[l:h]
	case *symstr:
		return mkStr(x.b[l:h])
	case []value:
		if x == nil {
			return []value(nil)
		}
		return x[l:h:m]
	case *value:
		a := (*x).(array)
		return []value(a)[l:h:m]
	}
	panic("unreachable")
}

func (in *interp) indexAddr(instr *ssa.IndexAddr, x, idx value) *value {
	var s []value
	switch x := x.(type) {
	case []value:
		s = x
	case *value:
		if x == nil {
			panic(rtPanic("invalid memory address or nil pointer dereference"))
		}
		s = []value((*x).(array))
	default:
		panic(fmt.Sprintf("unexpected x type in IndexAddr: %T", x))
	}
	if it := in.ext64(idx, instr.Index.Type()); !it.IsConst() && len(s) > 16 && len(s) <= 1024 {
		if cell := in.tableLookup(instr, s, it); cell != nil {
			return cell
		}
	}
	i, ok := in.concInt(in.ext64(idx, instr.Index.Type()), 0, int64(len(s))-1, "index")
	if !ok {
		panic(rtPanic("index out of range [%s] with length %d", toString(idx), len(s)))
	}
	if s[i] == nil { // lazily materialised element of a large zeroed slice
		var et types.Type
		switch t := instr.X.Type().Underlying().(type) {
		case *types.Slice:
			et = t.Elem()
		case *types.Pointer:
			et = t.Elem().Underlying().(*types.Array).Elem()
		}
		s[i] = in.zero(et)
		in.lazyCells = append(in.lazyCells, &s[i])
	}
	return &s[i]
}

// tableLookup handles a read of a table of constants at a symbolic index (utf8.first[b],
// crc tables, ...) without case-splitting on the index: the element becomes an if-then-else chain
// over the index. It applies only when every use of the address is a load and every element is a
// constant of one width; it returns nil otherwise.
func (in *interp) tableLookup(instr *ssa.IndexAddr, s []value, idx *sym.Term) *value {
	refs := instr.Referrers()
	if refs == nil || len(*refs) == 0 {
		return nil
	}
	for _, r := range *refs {
		u, ok := r.(*ssa.UnOp)
		if !ok || u.Op != token.MUL {
			return nil
		}
	}
	var w uint8
	for _, e := range s {
		t, ok := e.(*sym.Term)
		if !ok || !t.IsConst() || t.W == 0 || (w != 0 && t.W != w) {
			return nil
		}
		w = t.W
	}
	n := in.ctx.Const(64, uint64(len(s)))
	if !in.cur().branch(in.ctx.Cmp(sym.OpULt, idx, n), "table-index-in-range") {
		panic(rtPanic("index out of range [%s] with length %d", toString(idx), len(s)))
	}
	// runs of equal elements become one comparison each: ite(idx < end of run 1, v1, ite(idx < end of run 2, v2, ...))
	res := s[len(s)-1].(*sym.Term)
	for i := len(s) - 2; i >= 0; i-- {
		if e := s[i].(*sym.Term); e != s[i+1].(*sym.Term) {
			res = in.ctx.Ite(in.ctx.Cmp(sym.OpULt, idx, in.ctx.Const(64, uint64(i+1))), e, res)
		}
	}
	var cell value = res
	return &cell
}

func (in *interp) index(instr *ssa.Index, x, idx value) value {
	switch x := x.(type) {
	case array:
		i, ok := in.concInt(in.ext64(idx, instr.Index.Type()), 0, int64(len(x))-1, "index")
		if !ok {
			panic(rtPanic("index out of range [%s] with length %d", toString(idx), len(x)))
		}
		return x[i]
	case string, *symstr:
		n := strLen(x)
		i, ok := in.concInt(in.ext64(idx, instr.Index.Type()), 0, int64(n)-1, "index")
		if !ok {
			panic(rtPanic("index out of range [%s] with length %d", toString(idx), n))
		}
		if s, ok := x.(string); ok {
			return in.ctx.Const(8, uint64(s[i]))
		}
		return x.(*symstr).b[i]
	}
	panic(fmt.Sprintf("unexpected x type in Index: %T", x))
}

func (in *interp) typeAssert(instr *ssa.TypeAssert, itf iface) value {
	var v value
	err := ""
	if itf.t == nil {
		err = fmt.Sprintf("interface conversion: interface is nil, not %s", instr.AssertedType)
	} else if idst, ok := instr.AssertedType.Underlying().(*types.Interface); ok {
		v = itf
		if meth, _ := types.MissingMethod(itf.t, idst, true); meth != nil {
			if _, isOpaque := itf.v.(*opaque); !isOpaque || !isErrorIface(idst) {
				err = fmt.Sprintf("interface conversion: %v is not %v: missing method %s", itf.t, idst, meth.Name())
			}
		}
	} else if types.Identical(itf.t, instr.AssertedType) {
		v = itf.v
	} else {
		err = fmt.Sprintf("interface conversion: interface is %s, not %s", itf.t, instr.AssertedType)
	}
	if err != "" {
		if !instr.CommaOk {
			panic(targetPanic{msg: err})
		}
		return tuple{in.zero(instr.AssertedType), in.ctx.F}
	}
	if instr.CommaOk {
		return tuple{v, in.ctx.T}
	}
	return v
}

func isErrorIface(t *types.Interface) bool {
	return t.NumMethods() == 1 && t.Method(0).Name() == "Error"
}

func (in *interp) callBuiltin(caller *frame, callpos token.Pos, fn *ssa.Builtin, args []value) value {
	switch fn.Name() {
	case "append":
		if len(args) == 1 {
			return args[0]
		}
		arg0, _ := args[0].([]value)
		switch s := args[1].(type) {
		case string, *symstr:
			return append(arg0, termsToSlice(in.strBytes(s))...)
		case []value:
			if len(s) == 0 {
				return arg0
			}
			// copy element values (aggregates are stored by value)
			n := len(arg0)
			if in.race != nil && cap(arg0)-n >= len(s) {
				// an append that fits the spare capacity writes into the shared backing array
				full := arg0[:cap(arg0)]
				for i := range s {
					in.race.write(in.sch.cur, &full[n+i], false)
				}
			}
			out := append(arg0, s...)
			for i := n; i < len(out); i++ {
				out[i] = copyVal(out[i])
			}
			return out
		}
		panic(fmt.Sprintf("append: %T", args[1]))
	case "copy":
		dst := args[0].([]value)
		var src []value
		switch s := args[1].(type) {
		case string, *symstr:
			src = termsToSlice(in.strBytes(s))
		case []value:
			src = s
		}
		if in.race != nil {
			// copy reads the source elements and writes the destination elements
			m := len(dst)
			if len(src) < m {
				m = len(src)
			}
			if _, isSlice := args[1].([]value); isSlice {
				for i := 0; i < m; i++ {
					in.race.read(in.sch.cur, &src[i], false)
				}
			}
			for i := 0; i < m; i++ {
				in.race.write(in.sch.cur, &dst[i], false)
			}
		}
		n := copy(dst, src)
		for i := 0; i < n; i++ {
			dst[i] = copyVal(dst[i])
			in.onWrite(&dst[i])
		}
		return in.mkInt(n)
	case "close":
		in.chanClose(args[0].(*channel))
		return nil
	case "delete":
		in.mapDelete(args[0].(*omap), args[1])
		return nil
	case "print", "println":
		return nil
	case "len":
		switch x := args[0].(type) {
		case string, *symstr:
			return in.mkInt(strLen(x))
		case array:
			return in.mkInt(len(x))
		case *value:
			return in.mkInt(len((*x).(array)))
		case []value:
			return in.mkInt(len(x))
		case *omap:
			if x == nil {
				return in.mkInt(0)
			}
			if in.race != nil {
				in.race.read(in.sch.cur, &x.cell, false)
			}
			return in.mkInt(len(x.keys))
		case *channel:
			if x == nil {
				return in.mkInt(0)
			}
			return in.mkInt(len(x.buf))
		}
		panic(fmt.Sprintf("len: illegal operand: %T", args[0]))
	case "cap":
		switch x := args[0].(type) {
		case array:
			return in.mkInt(len(x))
		case *value:
			return in.mkInt(len((*x).(array)))
		case []value:
			return in.mkInt(cap(x))
		case *channel:
			if x == nil {
				return in.mkInt(0)
			}
			return in.mkInt(x.capacity)
		}
		panic(fmt.Sprintf("cap: illegal operand: %T", args[0]))
	case "min", "max":
		t := fn.Type().(*types.Signature).Params().At(0).Type()
		x := args[0]
		for _, y := range args[1:] {
			var lt *sym.Term
			if fn.Name() == "min" {
				lt = in.binop(token.LSS, t, t, y, x).(*sym.Term)
			} else {
				lt = in.binop(token.GTR, t, t, y, x).(*sym.Term)
			}
			if xt, ok := x.(*sym.Term); ok {
				x = in.ctx.Ite(lt, y.(*sym.Term), xt)
			} else if in.cur().branch(lt, "minmax") {
				x = y
			}
		}
		return x
	case "panic":
		panic(targetPanic{v: args[0]})
	case "recover":
		return in.doRecover(caller)
	case "ssa:wrapnilchk":
		recv := args[0]
		if recv.(*value) == nil {
			panic(rtPanic("value method %s.%s called using nil pointer", toString(args[1]), toString(args[2])))
		}
		return recv
	case "ssa:deferstack":
		return &caller.defers
	}
	panic("unknown built-in: " + fn.Name())
}

func (in *interp) rangeIter(x value, t types.Type) iter {
	switch x := x.(type) {
	case *omap:
		if x == nil {
			return &mapIter{in: in}
		}
		// snapshot, as Go semantics allow
		if in.race != nil {
			in.race.read(in.sch.cur, &x.cell, false)
		}
		return &mapIter{keys: append([]value{}, x.keys...), vals: append([]value{}, x.vals...), in: in}
	case string:
		return &stringIter{Reader: strings.NewReader(x), in: in}
	case *symstr:
		panic("range over symbolic string unsupported")
	}
	panic(fmt.Sprintf("cannot range over %T", x))
}

// roundupsize is the allocation size class the Go runtime rounds a small byte allocation up to.
func roundupsize(n int) int {
	for _, c := range []int{8, 16, 24, 32, 48, 64, 80, 96, 112, 128} {
		if n <= c {
			return c
		}
	}
	return n
}
