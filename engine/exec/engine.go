package exec

import (
	"fmt"
	"go/types"
	"os"
	"sort"
	"strings"
	"sync"
	"time"

	"golang.org/x/tools/go/packages"
	"golang.org/x/tools/go/ssa"
	"golang.org/x/tools/go/ssa/ssautil"

	"gosym/sym"
)

type Config struct {
	StepBudget    int64
	LoopBound     int
	MaxSplit      int
	Workers       int
	Solver        string
	TimeoutMs     int
	MaxViolations int
	MaxPaths      int
	Params        map[string]int
	Trace         bool
	Race          bool
	Seed          int64
	SampleModels  int // completed paths for which a model is recorded (conformance replay)
	Deadline      time.Time
	SolverLog     string
	Prefix        []int64 // explore only below this decision prefix
}

func (c *Config) defaults() {
	if c.StepBudget == 0 {
		c.StepBudget = 5_000_000
	}
	if c.LoopBound == 0 {
		c.LoopBound = 64
	}
	if c.MaxSplit == 0 {
		c.MaxSplit = 64
	}
	if c.Workers == 0 {
		c.Workers = 8
	}
	if c.Solver == "" {
		c.Solver = "z3"
	}
	if c.TimeoutMs == 0 {
		c.TimeoutMs = 20000
	}
	if c.MaxViolations == 0 {
		c.MaxViolations = 8
	}
	if c.MaxPaths == 0 {
		c.MaxPaths = 2_000_000
	}
}

type override struct {
	name string
	f    func(in *interp, fr *frame, args []value) value
}

type Engine struct {
	Prog                                     *ssa.Program
	Pkgs                                     []*packages.Package
	ModPath                                  string
	cfg                                      Config
	overrides                                map[string]*override
	noopPkgs                                 map[string]bool
	allowPkgs                                map[string]bool
	pbPkgs                                   map[string]bool
	mu                                       sync.Mutex
	opaqueTys                                map[string]types.Type
	rootFn                                   *ssa.Function
	fnInfos                                  sync.Map
	sklValueField, sklKeyField, sklListField int
	LoadTime                                 time.Duration
}

// Load type-checks and builds SSA for the module in dir with the given overlay (virtual
// path -> contents) and build tags.
func Load(dir string, overlay map[string][]byte, tags string, patterns []string) (*Engine, error) {
	t0 := time.Now()
	cfg := &packages.Config{
		Mode: packages.NeedName | packages.NeedFiles | packages.NeedCompiledGoFiles | packages.NeedImports |
			packages.NeedDeps | packages.NeedTypes | packages.NeedSyntax | packages.NeedTypesInfo | packages.NeedTypesSizes | packages.NeedModule,
		Dir:        dir,
		Overlay:    overlay,
		BuildFlags: []string{"-tags=" + tags, "-mod=mod"},
		Env:        append(os.Environ(), "GOFLAGS=-mod=mod", "GOPROXY=off", "GOSUMDB=off", "GOTOOLCHAIN=local"),
	}
	pkgs, err := packages.Load(cfg, patterns...)
	if err != nil {
		return nil, err
	}
	var errs []string
	packages.Visit(pkgs, nil, func(p *packages.Package) {
		for _, e := range p.Errors {
			errs = append(errs, e.Error())
		}
	})
	if len(errs) > 0 {
		if len(errs) > 20 {
			errs = errs[:20]
		}
		return nil, fmt.Errorf("package load errors:\n%s", strings.Join(errs, "\n"))
	}
	prog, _ := ssautil.AllPackages(pkgs, ssa.InstantiateGenerics)
	prog.Build()
	e := &Engine{Prog: prog, Pkgs: pkgs, overrides: map[string]*override{}, noopPkgs: map[string]bool{},
		allowPkgs: map[string]bool{}, pbPkgs: map[string]bool{}, opaqueTys: map[string]types.Type{}}
	for _, p := range pkgs {
		if p.Module != nil {
			e.ModPath = p.Module.Path
			break
		}
	}
	for _, p := range []string{"encoding/binary", "bytes", "strings", "sort", "container/list", "errors", "math/bits",
		"unicode/utf8", "math", "unicode", "internal/byteorder", "slices", "cmp", "io", "internal/stringslite",
		// pure key helpers of the TiKV client (NextKey, PrefixNextKey, CmpKey)
		"github.com/tikv/client-go/v2/kv"} {
		e.allowPkgs[p] = true
	}
	for _, p := range []string{"github.com/kubewharf/kubebrain-client/api/v2rpc", "go.etcd.io/etcd/api/v3/etcdserverpb",
		"go.etcd.io/etcd/api/v3/mvccpb"} {
		e.pbPkgs[p] = true
	}
	e.noopPkgs["k8s.io/klog/v2"] = true
	e.noopPkgs["google.golang.org/grpc/health"] = true // the health endpoint is not the subject of any property
	registerOverrides(e)
	e.LoadTime = time.Since(t0)
	return e, nil
}

func (e *Engine) reg(name string, f func(in *interp, fr *frame, args []value) value) {
	e.overrides[name] = &override{name: name, f: f}
}

func (e *Engine) override(fn *ssa.Function) *override {
	name := fn.String()
	if ov, ok := e.overrides[name]; ok {
		return ov
	}
	if fn.Pkg != nil {
		path := fn.Pkg.Pkg.Path()
		if e.noopPkgs[path] {
			return &override{name: "noop:" + path, f: func(in *interp, fr *frame, args []value) value {
				if fn.Name() == "Fatal" || fn.Name() == "Fatalf" || fn.Name() == "Fatalln" || fn.Name() == "FatalS" {
					panic(targetPanic{msg: "klog.Fatal: process exits"})
				}
				if fn.Name() == "InfoS" && len(in.logGates) > 0 && len(args) > 0 {
					// structured log lines named by zzverif.GateLogs are scheduling points (natively a
					// klog filter waits there for the thread's turn)
					if msg, ok := args[0].(string); ok {
						for _, sub := range in.logGates {
							if strings.Contains(msg, sub) {
								in.gateAt("k:" + msg)
								break
							}
						}
					}
				}
				return in.zero(fn.Signature.Results())
			}}
		}
		if e.pbPkgs[path] && fn.Signature.Recv() != nil {
			switch fn.Name() {
			case "Size", "XXX_Size":
				return &override{name: "pb.Size", f: func(in *interp, fr *frame, args []value) value { return in.mkInt(0) }}
			case "String":
				return &override{name: "pb.String", f: func(in *interp, fr *frame, args []value) value { return "<pb>" }}
			}
		}
	}
	return nil
}

func (e *Engine) interpretable(fn *ssa.Function) bool {
	if fn.Pkg == nil {
		if fn.Synthetic != "" || fn.Parent() != nil {
			// wrappers, thunks, bound methods: decide by the wrapped method's package
			if o := fn.Object(); o != nil && o.Pkg() != nil {
				return e.pkgInterpretable(o.Pkg().Path())
			}
			return true
		}
		return true
	}
	return e.pkgInterpretable(fn.Pkg.Pkg.Path())
}

func (e *Engine) inModule(path string) bool {
	return path == e.ModPath || strings.HasPrefix(path, e.ModPath+"/")
}

func (e *Engine) pkgInterpretable(path string) bool {
	return e.inModule(path) || e.allowPkgs[path] || e.pbPkgs[path]
}

func (e *Engine) initAllowed(pkg *ssa.Package) bool {
	p := pkg.Pkg.Path()
	return e.inModule(p) || p == "unicode/utf8"
}

// opaqueType returns a synthetic named type used as the dynamic type of engine objects.
func (e *Engine) opaqueType(name string) types.Type {
	e.mu.Lock()
	defer e.mu.Unlock()
	if t, ok := e.opaqueTys[name]; ok {
		return t
	}
	tn := types.NewTypeName(0, nil, "gosym·"+name, nil)
	t := types.NewNamed(tn, types.NewStruct(nil, nil), nil)
	e.opaqueTys[name] = t
	return t
}

type fnInfo struct {
	idx map[ssa.Value]int
	n   int
	ov  *override
	// cached classification
	interpretable bool
	isPkgInit     bool
	initAllowed   bool
	name          string
}

func (e *Engine) info(fn *ssa.Function) *fnInfo {
	if v, ok := e.fnInfos.Load(fn); ok {
		return v.(*fnInfo)
	}
	fi := &fnInfo{idx: map[ssa.Value]int{}, name: fn.String()}
	add := func(v ssa.Value) {
		fi.idx[v] = fi.n
		fi.n++
	}
	for _, p := range fn.Params {
		add(p)
	}
	for _, p := range fn.FreeVars {
		add(p)
	}
	for _, p := range fn.Locals {
		add(p)
	}
	for _, b := range fn.Blocks {
		for _, i := range b.Instrs {
			if v, ok := i.(ssa.Value); ok {
				if _, dup := fi.idx[v]; !dup {
					add(v)
				}
			}
		}
	}
	if fn.Parent() == nil {
		fi.ov = e.override(fn)
	}
	fi.interpretable = e.interpretable(fn)
	fi.isPkgInit = fn.Name() == "init" && fn.Pkg != nil && fn.Signature.Recv() == nil && fn.Parent() == nil
	if fi.isPkgInit {
		fi.initAllowed = e.initAllowed(fn.Pkg)
	}
	v, _ := e.fnInfos.LoadOrStore(fn, fi)
	return v.(*fnInfo)
}

func (e *Engine) FindFunc(pkgPath, name string) *ssa.Function {
	for _, p := range e.Prog.AllPackages() {
		if p.Pkg.Path() == pkgPath {
			return p.Func(name)
		}
	}
	return nil
}

// Harnesses lists exported functions whose name starts with prefix in module packages.
func (e *Engine) Harnesses(prefix string) []*ssa.Function {
	var out []*ssa.Function
	for _, p := range e.Prog.AllPackages() {
		if !e.inModule(p.Pkg.Path()) {
			continue
		}
		for name, m := range p.Members {
			if f, ok := m.(*ssa.Function); ok && strings.HasPrefix(name, prefix) {
				out = append(out, f)
			}
		}
	}
	sort.Slice(out, func(i, j int) bool { return out[i].String() < out[j].String() })
	return out
}

// ---- exploration ----

type PathSample struct {
	Decisions int               `json:"decisions"`
	Kinds     string            `json:"decision_kinds"`
	Trace     []int64           `json:"trace"`
	PC        []string          `json:"path_condition,omitempty"`
	Model     map[string]uint64 `json:"model,omitempty"`
	Observes  []string          `json:"observes,omitempty"`
	Choices   map[string]int    `json:"choices,omitempty"`
	Schedule  []string          `json:"schedule,omitempty"`
	Ungated   int               `json:"ungated,omitempty"` // preemptions at points a native run cannot force
	End       string            `json:"end"`
}

type Report struct {
	Harness      string
	Paths        int // completed (reached the end of the harness)
	Pruned       int // ended by Assume / infeasible
	Runs         int
	Nodes        int64 // decisions taken over all runs (tree nodes)
	Decisions    int64
	SchedDecs    int64
	NonTrivial   int // completed paths with at least one non-constant decision/assertion
	Asserts      int64
	Violations   []*Violation
	Inconclusive []string
	Errors       []string
	Covers       map[string]int
	Queries      int
	QSat, QUnsat int
	QUnknown     int
	SolverTime   time.Duration
	Wall         time.Duration
	Funcs        map[string]int
	Stubs        map[string]int
	Emits        map[string]int // "site|method|metric name|label names" -> executions (metric emissions of the code under test)
	EmitSites    []string       // every call site of metrics.Metrics.Emit* in kubebrain's own packages (static)
	Samples      []PathSample
	Steps        int64
	Truncated    bool
	Races        []string
	Params       map[string]int
}

type worker struct {
	id      int
	solver  *sym.Solver
	lastSat bool
	pool    map[int][][]value
}

type workItem struct{ prefix []int64 }

type explorer struct {
	e       *Engine
	fn      *ssa.Function
	mu      sync.Mutex
	cond    *sync.Cond
	stack   []workItem
	active  int
	rep     *Report
	stop    bool
	violKey map[string]*Violation
}

// EmitSites lists every call site of metrics.Metrics.Emit{Counter,Gauge,Histogram} in the
// module's own packages (harness packages excluded), from the SSA of the current source.
func (e *Engine) EmitSites() []string {
	seen := map[string]bool{}
	for fn := range ssautil.AllFunctions(e.Prog) {
		if fn.Pkg == nil || !strings.HasPrefix(fn.Pkg.Pkg.Path(), e.ModPath+"/") || strings.Contains(fn.Pkg.Pkg.Path(), "/pkg/zz") {
			continue
		}
		for _, b := range fn.Blocks {
			for _, ins := range b.Instrs {
				ci, ok := ins.(ssa.CallInstruction)
				if !ok || ci.Common().Method == nil || !isEmit(ci.Common().Method) {
					continue
				}
				p := e.Prog.Fset.Position(ins.Pos())
				if strings.HasSuffix(p.Filename, "_test.go") || strings.Contains(p.Filename, "zz_verif") {
					continue
				}
				f := p.Filename
				if i := strings.LastIndex(f, "/pkg/"); i >= 0 {
					f = f[i+1:]
				}
				name := "?"
				if args := ci.Common().Args; len(args) > 0 {
					if c, ok := args[0].(*ssa.Const); ok && c.Value != nil {
						name = strings.Trim(c.Value.ExactString(), "\"")
					}
				}
				seen[fmt.Sprintf("%s:%d|%s", f, p.Line, name)] = true
			}
		}
	}
	out := make([]string, 0, len(seen))
	for s := range seen {
		out = append(out, s)
	}
	sort.Strings(out)
	return out
}

func (e *Engine) Explore(fn *ssa.Function, cfg Config) *Report {
	cfg.defaults()
	e.cfg = cfg
	e.rootFn = fn
	t0 := time.Now()
	x := &explorer{e: e, fn: fn, rep: &Report{Harness: fn.String(), Covers: map[string]int{}, Funcs: map[string]int{}, Stubs: map[string]int{}, Params: cfg.Params},
		violKey: map[string]*Violation{}}
	x.cond = sync.NewCond(&x.mu)
	x.stack = []workItem{{cfg.Prefix}}
	var wg sync.WaitGroup
	for i := 0; i < cfg.Workers; i++ {
		wg.Add(1)
		go func(id int) {
			defer wg.Done()
			x.workerLoop(id)
		}(i)
	}
	wg.Wait()
	x.rep.Wall = time.Since(t0)
	return x.rep
}

func (x *explorer) workerLoop(id int) {
	s, err := sym.StartSolver(x.e.cfg.Solver, x.e.cfg.TimeoutMs)
	if err != nil {
		x.mu.Lock()
		x.rep.Errors = append(x.rep.Errors, "cannot start solver: "+err.Error())
		x.stop = true
		x.cond.Broadcast()
		x.mu.Unlock()
		return
	}
	if x.e.cfg.SolverLog != "" && id == 0 {
		f, _ := os.Create(x.e.cfg.SolverLog)
		s.Log = f
	}
	w := &worker{id: id, solver: s}
	defer func() {
		x.mu.Lock()
		x.rep.Queries += s.Queries
		x.rep.QSat += s.NSat
		x.rep.QUnsat += s.NUnsat
		x.rep.QUnknown += s.NUnk
		x.rep.SolverTime += s.Time
		for _, e := range s.Errors {
			if len(x.rep.Inconclusive) < 50 {
				x.rep.Inconclusive = append(x.rep.Inconclusive, "solver output: "+e)
			}
		}
		x.mu.Unlock()
		s.Close()
	}()
	for {
		x.mu.Lock()
		for len(x.stack) == 0 && x.active > 0 && !x.stop {
			x.cond.Wait()
		}
		if x.stop || (len(x.stack) == 0 && x.active == 0) {
			x.cond.Broadcast()
			x.mu.Unlock()
			return
		}
		it := x.stack[len(x.stack)-1]
		x.stack = x.stack[:len(x.stack)-1]
		x.active++
		x.mu.Unlock()

		res := x.e.execRun(w, x.fn, it.prefix)

		x.mu.Lock()
		x.active--
		x.merge(res)
		x.cond.Broadcast()
		x.mu.Unlock()
	}
}

type runResult struct {
	end      pathEnd
	r        *run
	in       *interp
	sample   *PathSample
	solverOK bool
}

func sameSchedule(first, v *Violation) bool {
	eq := func(a, b []string) bool {
		if len(a) != len(b) {
			return false
		}
		for i := range a {
			if a[i] != b[i] {
				return false
			}
		}
		return true
	}
	if eq(first.Schedule, v.Schedule) {
		return true
	}
	for _, a := range first.Alternates {
		if eq(a.Schedule, v.Schedule) {
			return true
		}
	}
	return false
}

func (x *explorer) merge(res *runResult) {
	rep := x.rep
	rep.Runs++
	r := res.r
	rep.Nodes += int64(len(r.trace) - len(r.prefix))
	rep.Decisions += int64(len(r.trace))
	rep.SchedDecs += int64(res.in.sch.nsched)
	rep.Asserts += int64(r.asserts)
	rep.Steps += res.in.steps
	for fn, n := range res.in.funcsSeen {
		rep.Funcs[fn.String()] += n
	}
	for s, n := range res.in.stubsSeen {
		rep.Stubs[s] += n
	}
	for s, n := range res.in.emitsSeen {
		if rep.Emits == nil {
			rep.Emits = map[string]int{}
		}
		rep.Emits[s] += n
	}
	for c := range r.covers {
		rep.Covers[c]++
	}
	for _, m := range r.inconcl {
		if len(rep.Inconclusive) < 50 {
			rep.Inconclusive = append(rep.Inconclusive, m)
		}
	}
	if res.in.race != nil {
		for _, rc := range res.in.race.reports {
			dup := false
			for _, o := range rep.Races {
				if o == rc {
					dup = true
				}
			}
			if !dup {
				rep.Races = append(rep.Races, rc)
			}
		}
	}
	for i := len(r.pending) - 1; i >= 0; i-- {
		x.stack = append(x.stack, workItem{r.pending[i]})
	}
	switch res.end.kind {
	case "done":
		rep.Paths++
		if r.nontriv > 0 {
			rep.NonTrivial++
		}
		if res.sample != nil && len(rep.Samples) < x.e.cfg.SampleModels+3 && (res.sample.Ungated == 0 || len(rep.Samples) < 2) {
			rep.Samples = append(rep.Samples, *res.sample)
		}
	case "assume", "infeasible":
		rep.Pruned++
	case "violation", "deadlock":
		v := r.viol
		if v == nil {
			v = &Violation{Kind: res.end.kind, Label: res.end.kind, Msg: res.end.msg, Model: map[string]uint64{}}
			if res.sample != nil {
				v.Model = res.sample.Model
			}
		}
		v.Trace = r.trace
		v.Kinds = string(r.kinds)
		for _, o := range res.in.observes {
			v.Observes = append(v.Observes, o.eval(v.Model))
		}
		v.Findings = res.in.findings()
		v.Schedule = res.in.sch.schedLog
		v.Ungated = res.in.sch.ungated
		for i, c := range r.pc {
			if i >= 40 {
				break
			}
			v.PC = append(v.PC, c.String())
		}
		v.Choices = map[string]int{}
		for _, c := range res.in.chooseLog {
			v.Choices[c.Name] = c.Val
		}
		key := v.Kind + "|" + v.Label + "|" + strings.Join(v.Findings, ",")
		if first := x.violKey[key]; first == nil {
			x.violKey[key] = v
			rep.Violations = append(rep.Violations, v)
		} else if len(v.Schedule) > 0 && len(first.Alternates) < 8 && !sameSchedule(first, v) {
			// other schedules reaching the same failed assertion: the driver replays them when the
			// first one does not reproduce natively (not every interleaving of steps between two
			// gates can be forced on the real build)
			first.Alternates = append(first.Alternates, v)
		}
		if len(rep.Violations) >= x.e.cfg.MaxViolations {
			x.stop = true
		}
	case "unwind", "budget":
		rep.Inconclusive = append(rep.Inconclusive, res.end.kind+": "+res.end.msg)
	case "error":
		if len(rep.Errors) < 20 {
			rep.Errors = append(rep.Errors, res.end.msg)
		}
		x.stop = true
	}
	if rep.Runs >= x.e.cfg.MaxPaths || (!x.e.cfg.Deadline.IsZero() && time.Now().After(x.e.cfg.Deadline)) {
		if len(x.stack) > 0 {
			rep.Truncated = true
		}
		x.stop = true
	}
}

func (e *Engine) execRun(w *worker, fn *ssa.Function, prefix []int64) *runResult {
	in := &interp{eng: e, prog: e.Prog, ctx: sym.NewCtx(), globals: map[*ssa.Global]*value{}, trace: e.cfg.Trace,
		chanCaps: map[string]int{}, funcsSeen: map[*ssa.Function]int{}, stubsSeen: map[string]int{}, opaques: map[string]*opaque{}}
	r := &run{in: in, w: w, prefix: prefix, pcset: map[*sym.Term]bool{}}
	in.r = r
	in.sch = newSched(in)
	if e.cfg.Race {
		in.race = newRaceMon(in)
	}
	w.solver.Send("(push 1)\n")
	main := &thread{id: 0, name: "main", resume: make(chan struct{})}
	in.sch.threads = []*thread{main}
	in.sch.cur = main
	if in.race != nil {
		in.race.onSpawn(nil, main)
	}
	in.sch.wg.Add(1)
	go in.threadMain(main, value(&nativeFn{name: "harness", f: func(in *interp, caller *frame, args []value) value {
		in.runInits(fn)
		return in.call(caller, 0, fn, nil)
	}}), nil)
	main.resume <- struct{}{}
	out := <-in.sch.done
	// kill remaining threads
	in.killed = true
	for _, t := range in.sch.threads {
		if t.state != tDone {
			select {
			case t.resume <- struct{}{}:
			default:
				// thread is currently running towards its exit; it will observe killed
				go func(t *thread) {
					select {
					case t.resume <- struct{}{}:
					case <-time.After(5 * time.Second):
					}
				}(t)
			}
		}
	}
	in.sch.wg.Wait()
	if in.race != nil && len(in.race.reports) > 0 && out.end.kind == "done" {
		// a data race on an explored, feasible path is a violation of the harness
		v := &Violation{Kind: "race", Label: in.race.reports[0], Msg: strings.Join(in.race.reports, "; ")}
		in.fillModel(v)
		r.viol = v
		out.end = pathEnd{kind: "violation", msg: "data race"}
	}
	res := &runResult{end: out.end, r: r, in: in}
	if out.viol != nil && r.viol == nil {
		r.viol = out.viol
	}
	// sample: model + observations of completed (or deadlocked) paths
	if out.end.kind == "done" || out.end.kind == "deadlock" {
		smp := &PathSample{Decisions: len(r.trace), Kinds: string(r.kinds), Trace: r.trace, End: out.end.kind}
		smp.Schedule = in.sch.schedLog
		smp.Ungated = in.sch.ungated
		smp.Choices = map[string]int{}
		for _, c := range in.chooseLog {
			smp.Choices[c.Name] = c.Val
		}
		for i, c := range r.pc {
			if i >= 12 {
				smp.PC = append(smp.PC, "…")
				break
			}
			smp.PC = append(smp.PC, c.String())
		}
		func() {
			defer func() { recover() }()
			defer w.solver.Send("(pop 1)\n")
			rs, err := w.solver.Check("(push 1)\n")
			if err == nil && rs == sym.Sat {
				smp.Model = r.model()
			}
		}()
		if smp.Model != nil {
			for _, o := range in.observes {
				smp.Observes = append(smp.Observes, o.eval(smp.Model))
			}
		}
		res.sample = smp
	}
	w.solver.Send("(pop 1)\n")
	w.lastSat = false
	in.releaseBig()
	return res
}

// runInits executes the package initialisers reachable from the harness package.
func (in *interp) runInits(fn *ssa.Function) {
	in.inInit = true
	defer func() { in.inInit = false }()
	// table-only standard packages are initialised whoever imports them (the chain of initialisers
	// from the harness package stops at packages whose initialiser is not executed)
	for _, path := range []string{"unicode/utf8"} {
		if p := in.eng.Prog.ImportedPackage(path); p != nil {
			if init := p.Func("init"); init != nil {
				in.call(&frame{in: in, th: in.sch.cur, fn: fn}, 0, init, nil)
			}
		}
	}
	if fn.Pkg != nil {
		if init := fn.Pkg.Func("init"); init != nil {
			in.call(&frame{in: in, th: in.sch.cur, fn: fn}, 0, init, nil)
		}
	}
}
