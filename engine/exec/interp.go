package exec

import (
	"fmt"
	"go/token"
	"go/types"
	"os"
	"slices"
	"sort"
	"strings"

	"golang.org/x/tools/go/ssa"

	"gosym/sym"
)

type continuation int

const (
	kNext continuation = iota
	kReturn
	kJump
)

// interp is the state of one run (one execution of a harness along one decision prefix).
type interp struct {
	eng     *Engine
	prog    *ssa.Program
	ctx     *sym.Ctx
	r       *run
	globals map[*ssa.Global]*value
	sch     *sched
	steps   int64
	inInit  bool
	trace   bool
	race    *raceMon
	// ghost state used by overrides
	clock         *sym.Term
	stamp         int
	observes      []observation
	chanCaps      map[string]int
	tkSplits      [][]*sym.Term // region split keys of the TiKV model (ascending)
	tkOracleFault int           // the n-th following PD timestamp request fails (0: none)
	ttlSeq        int           // fresh names for the unknown second phases of TTL deadlines (Badger model)
	logGates      []string      // substrings of structured log messages that are scheduling points
	funcsSeen     map[*ssa.Function]int
	stubsSeen     map[string]int
	emitsSeen     map[string]int
	syncMaps      map[*value]*syncMapState
	syncPools     map[*value][]value
	opaques       map[string]*opaque
	killed        bool
	mutexes       map[*value]*mutexState
	wgs           map[*value]*wgState
	afterFuncs    []value
	freeClock     bool
	findingSet    map[string]bool
	chooseLog     []chooseRec
	nameCount     map[string]int
	curWhere      string
	curInstr      ssa.Instruction
	curFr         *frame
	tickers       []*channel
	timedCtxs     []*ctxObj // live contexts made by WithTimeout / WithDeadline
	promNames     map[string]string
	skls          map[*value]*sklModel
	httpHandler   value
	flights       map[*value]*sfCall
	bigTaken      [][]value
	lazyCells     []*value
}

type chooseRec struct {
	Name string
	Val  int
}

var gcSizes = types.SizesFor("gc", "amd64")

func (in *interp) cur() *run { return in.r }

type deferred struct {
	fn    value
	args  []value
	instr *ssa.Defer
	tail  *deferred
}

type frame struct {
	in               *interp
	caller           *frame
	fn               *ssa.Function
	block, prevBlock *ssa.BasicBlock
	env              []value
	info             *fnInfo
	locals           []value
	defers           *deferred
	result           value
	panicking        bool
	panic            interface{}
	phitemps         []value
	visits           map[*ssa.BasicBlock]int
	spin             map[*ssa.BasicBlock]*spinRec
	th               *thread
}

type spinRec struct {
	phis   []value
	writes uint64
	reads  int
}

func (fr *frame) get(key ssa.Value) value {
	switch key := key.(type) {
	case nil:
		return nil
	case *ssa.Function, *ssa.Builtin:
		return key
	case *ssa.Const:
		return fr.in.constValue(key)
	case *ssa.Global:
		return fr.in.global(key)
	}
	if i, ok := fr.info.idx[key]; ok {
		if r := fr.env[i]; r != nil {
			return r
		}
	}
	panic(fmt.Sprintf("get: no value for %T: %v in %s", key, key.Name(), fr.fn))
}

func (in *interp) global(g *ssa.Global) *value {
	if r, ok := in.globals[g]; ok {
		return r
	}
	cell := in.zero(deref(g.Type()))
	// globals of packages whose init is not executed: interface-typed ones become
	// distinct opaque objects so that sentinel identity is preserved.
	if g.Pkg != nil && !in.eng.initAllowed(g.Pkg) {
		if _, ok := deref(g.Type()).Underlying().(*types.Interface); ok {
			name := g.Pkg.Pkg.Path() + "." + g.Name()
			cell = iface{t: in.eng.opaqueType(name), v: in.opaqueObj(name)}
		} else {
			// reported in the evidence (stubs): a variable of a package whose initialiser is not
			// executed starts as the zero value
			in.stubsSeen["zero-global:"+g.Pkg.Pkg.Path()+"."+g.Name()]++
		}
	}
	p := &cell
	in.globals[g] = p
	return p
}

func (in *interp) opaqueObj(name string) *opaque {
	if o, ok := in.opaques[name]; ok {
		return o
	}
	o := &opaque{name: name}
	in.opaques[name] = o
	return o
}

func (fr *frame) runDefer(d *deferred) {
	var ok bool
	defer func() {
		if !ok {
			p := recover()
			if isControl(p) {
				panic(p)
			}
			fr.panicking = true
			fr.panic = p
		}
	}()
	fr.in.call(fr, d.instr.Pos(), d.fn, d.args)
	ok = true
}

func (fr *frame) runDefers() {
	for d := fr.defers; d != nil; d = d.tail {
		fr.runDefer(d)
	}
	fr.defers = nil
	if fr.panicking {
		panic(fr.panic)
	}
}

// control panics (path end, run killed) are never caught by the interpreted program.
type pathEnd struct {
	kind string // "assume", "infeasible", "violation", "unwind", "budget", "error", "deadlock", "done"
	msg  string
}
type killedPanic struct{}

func isControl(p interface{}) bool {
	switch p.(type) {
	case pathEnd, killedPanic:
		return true
	}
	return false
}

func (in *interp) visitInstr(fr *frame, instr ssa.Instruction) continuation {
	switch instr := instr.(type) {
	case *ssa.DebugRef:
	case *ssa.UnOp:
		fr.set(instr, in.unop(instr, fr.get(instr.X)))
	case *ssa.BinOp:
		fr.set(instr, in.binop(instr.Op, instr.X.Type(), instr.Y.Type(), fr.get(instr.X), fr.get(instr.Y)))
	case *ssa.Call:
		fn, args := in.prepareCall(fr, &instr.Call)
		if m := instr.Call.Method; m != nil && strings.HasPrefix(m.Name(), "Emit") {
			in.recordEmit(fr, instr, args)
		}
		fr.set(instr, in.call(fr, instr.Pos(), fn, args))
	case *ssa.ChangeInterface:
		fr.set(instr, fr.get(instr.X))
	case *ssa.ChangeType:
		fr.set(instr, fr.get(instr.X))
	case *ssa.Convert:
		fr.set(instr, in.conv(instr.Type(), instr.X.Type(), fr.get(instr.X)))
	case *ssa.MakeInterface:
		fr.set(instr, iface{t: instr.X.Type(), v: copyVal(fr.get(instr.X))})
	case *ssa.Extract:
		fr.set(instr, fr.get(instr.Tuple).(tuple)[instr.Index])
	case *ssa.Slice:
		fr.set(instr, in.sliceOp(instr, fr.get(instr.X), fr.get(instr.Low), fr.get(instr.High), fr.get(instr.Max)))
	case *ssa.Return:
		switch len(instr.Results) {
		case 0:
		case 1:
			fr.result = fr.get(instr.Results[0])
		default:
			var res []value
			for _, r := range instr.Results {
				res = append(res, fr.get(r))
			}
			fr.result = tuple(res)
		}
		fr.block = nil
		return kReturn
	case *ssa.RunDefers:
		fr.runDefers()
	case *ssa.Panic:
		panic(targetPanic{v: fr.get(instr.X)})
	case *ssa.Send:
		in.chanSend(fr.get(instr.Chan).(*channel), fr.get(instr.X))
	case *ssa.Store:
		addr := fr.get(instr.Addr).(*value)
		if addr == nil {
			panic(rtPanic("invalid memory address or nil pointer dereference"))
		}
		in.onWrite(addr)
		store(deref(instr.Addr.Type()), addr, fr.get(instr.Val))
	case *ssa.If:
		succ := 1
		if in.cur().branch(fr.get(instr.Cond).(*sym.Term), "if") {
			succ = 0
		}
		fr.prevBlock, fr.block = fr.block, fr.block.Succs[succ]
		return kJump
	case *ssa.Jump:
		fr.prevBlock, fr.block = fr.block, fr.block.Succs[0]
		return kJump
	case *ssa.Defer:
		fn, args := in.prepareCall(fr, &instr.Call)
		defers := &fr.defers
		if into := fr.get(instr.DeferStack); into != nil {
			defers = into.(**deferred)
		}
		*defers = &deferred{fn: fn, args: args, instr: instr, tail: *defers}
	case *ssa.Go:
		fn, args := in.prepareCall(fr, &instr.Call)
		in.spawn(fr, instr, fn, args)
	case *ssa.MakeChan:
		n, _ := in.concInt(fr.get(instr.Size), 0, 1<<20, "chan-size")
		fr.set(instr, in.makeChan(int(n), fr.fn.String()))
	case *ssa.Alloc:
		var addr *value
		if instr.Heap {
			addr = new(value)
			fr.set(instr, addr)
		} else {
			addr = fr.get(instr).(*value)
		}
		*addr = in.zero(deref(instr.Type()))
	case *ssa.MakeSlice:
		tElt0 := instr.Type().Underlying().(*types.Slice).Elem()
		if ct := in.ext64(fr.get(instr.Cap), instr.Cap.Type()); !ct.IsConst() {
			// the runtime's rule (amd64): panic iff cap < 0 or cap * element size exceeds 2^48
			es := gcSizes.Sizeof(tElt0)
			if es <= 0 {
				es = 1
			}
			lim := in.ctx.Const(64, uint64((int64(1)<<48)/es))
			bad := in.ctx.Or(in.ctx.Cmp(sym.OpSLt, ct, in.ctx.Const(64, 0)), in.ctx.Cmp(sym.OpSLt, lim, ct))
			if in.cur().branch(bad, "makeslice-cap-out-of-range") {
				panic(rtPanic("makeslice: cap out of range"))
			}
		}
		cp, ok1 := in.concInt(fr.get(instr.Cap), 0, 1<<24, "makeslice-cap")
		if !ok1 {
			if c := fr.get(instr.Cap).(*sym.Term); c.IsConst() && c.Int() < 0 {
				panic(rtPanic("makeslice: cap out of range"))
			}
			// between 2^24 elements and the runtime's limit the allocation may succeed or exhaust memory
			panic(pathEnd{kind: "unwind", msg: "allocation of more than 2^24 elements (" + in.whereNow() + ")"})
		}
		ln, ok2 := in.concInt(fr.get(instr.Len), 0, cp, "makeslice-len")
		if !ok2 {
			panic(rtPanic("makeslice: len out of range"))
		}
		var s []value
		if cp <= 4096 {
			s = make([]value, cp)
			tElt := instr.Type().Underlying().(*types.Slice).Elem()
			for i := range s {
				s[i] = in.zero(tElt)
			}
		} else { // elements are materialised lazily by indexAddr
			s = in.bigSlice(int(cp))
		}
		fr.set(instr, s[:ln])
	case *ssa.MakeMap:
		fr.set(instr, &omap{ktype: instr.Type().Underlying().(*types.Map).Key()})
	case *ssa.Range:
		fr.set(instr, in.rangeIter(fr.get(instr.X), instr.X.Type()))
	case *ssa.Next:
		fr.set(instr, fr.get(instr.Iter).(iter).next())
	case *ssa.FieldAddr:
		p := fr.get(instr.X).(*value)
		if p == nil {
			panic(rtPanic("invalid memory address or nil pointer dereference"))
		}
		fr.set(instr, &(*p).(structure)[instr.Field])
	case *ssa.Field:
		fr.set(instr, fr.get(instr.X).(structure)[instr.Field])
	case *ssa.IndexAddr:
		fr.set(instr, in.indexAddr(instr, fr.get(instr.X), fr.get(instr.Index)))
	case *ssa.Index:
		fr.set(instr, in.index(instr, fr.get(instr.X), fr.get(instr.Index)))
	case *ssa.Lookup:
		x := fr.get(instr.X)
		switch x := x.(type) {
		case *omap:
			v, ok := in.mapLookup(x, fr.get(instr.Index))
			if !ok {
				v = in.zero(instr.X.Type().Underlying().(*types.Map).Elem())
			}
			if instr.CommaOk {
				fr.set(instr, tuple{v, in.ctx.Bool(ok)})
			} else {
				fr.set(instr, v)
			}
		default:
			panic(fmt.Sprintf("unexpected x type in Lookup: %T", x))
		}
	case *ssa.MapUpdate:
		in.mapInsert(fr.get(instr.Map).(*omap), fr.get(instr.Key), fr.get(instr.Value))
	case *ssa.TypeAssert:
		fr.set(instr, in.typeAssert(instr, fr.get(instr.X).(iface)))
	case *ssa.MakeClosure:
		var bindings []value
		for _, binding := range instr.Bindings {
			bindings = append(bindings, fr.get(binding))
		}
		fr.set(instr, &closure{instr.Fn.(*ssa.Function), bindings})
	case *ssa.Select:
		fr.set(instr, in.selectOp(fr, instr))
	default:
		panic(fmt.Sprintf("unexpected instruction: %T", instr))
	}
	return kNext
}

// isEmit reports whether the invoked interface method is one of the metric emission methods of
// kubebrain's metrics.Metrics.
func isEmit(m *types.Func) bool {
	switch m.Name() {
	case "EmitCounter", "EmitGauge", "EmitHistogram":
		return m.Pkg() != nil && strings.HasSuffix(m.Pkg().Path(), "/pkg/metrics")
	}
	return false
}

// recordEmit notes a metric emission executed by the code under test: call site, kind, metric
// name and the *names* of its labels (the C20 check compares them over all sites).
func (in *interp) recordEmit(fr *frame, instr *ssa.Call, args []value) {
	if !isEmit(instr.Call.Method) || len(args) < 4 || strings.Contains(fr.fn.Pkg.Pkg.Path(), "/pkg/zz") {
		return
	}
	name := "<symbolic>"
	if sv, ok := args[1].(string); ok {
		name = sv
	}
	var labels []string
	if tags, ok := args[3].([]value); ok {
		for _, t := range tags {
			st, ok := t.(structure)
			if !ok || len(st) == 0 {
				continue
			}
			if ln, ok := st[0].(string); ok {
				labels = append(labels, ln)
			} else {
				labels = append(labels, "<symbolic>")
			}
		}
	}
	sort.Strings(labels)
	if in.emitsSeen == nil {
		in.emitsSeen = map[string]int{}
	}
	in.emitsSeen[in.siteOf(fr, instr.Pos())+"|"+instr.Call.Method.Name()+"|"+name+"|"+strings.Join(labels, ",")]++
}

func (in *interp) siteOf(fr *frame, pos token.Pos) string {
	p := in.prog.Fset.Position(pos)
	f := p.Filename
	if i := strings.LastIndex(f, "/pkg/"); i >= 0 {
		f = f[i+1:]
	}
	return fmt.Sprintf("%s:%d", f, p.Line)
}

func (in *interp) prepareCall(fr *frame, call *ssa.CallCommon) (fn value, args []value) {
	v := fr.get(call.Value)
	if call.Method == nil {
		fn = v
	} else {
		recv := v.(iface)
		if recv.t == nil {
			panic(rtPanic("invalid memory address or nil pointer dereference (method %s invoked on nil interface)", call.Method.Name()))
		}
		if o, ok := recv.v.(*opaque); ok {
			fn = &opaqueMethod{o: o, name: call.Method.Name(), sig: call.Method.Type().(*types.Signature)}
		} else if no, ok := recv.v.(nativeObj); ok {
			mname := call.Method.Name()
			fn = &nativeFn{name: mname, f: func(in *interp, caller *frame, args []value) value {
				return no.callMethod(in, caller, mname, args[1:])
			}}
		} else if f := in.prog.LookupMethod(recv.t, call.Method.Pkg(), call.Method.Name()); f == nil {
			panic(fmt.Sprintf("method set for dynamic type %v does not contain %s", recv.t, call.Method))
		} else {
			fn = f
		}
		args = append(args, recv.v)
	}
	for _, arg := range call.Args {
		args = append(args, fr.get(arg))
	}
	return
}

type opaqueMethod struct {
	o    *opaque
	name string
	sig  *types.Signature
}

func (in *interp) call(caller *frame, callpos token.Pos, fn value, args []value) value {
	switch fn := fn.(type) {
	case *ssa.Function:
		if fn == nil {
			panic(rtPanic("call of nil function"))
		}
		return in.callSSA(caller, callpos, fn, args, nil)
	case *closure:
		if fn == nil {
			panic(rtPanic("call of nil function"))
		}
		return in.callSSA(caller, callpos, fn.Fn, args, fn.Env)
	case *ssa.Builtin:
		return in.callBuiltin(caller, callpos, fn, args)
	case *opaqueMethod:
		return in.callOpaque(fn, args)
	case *nativeFn:
		return fn.f(in, caller, args)
	}
	panic(fmt.Sprintf("cannot call %T", fn))
}

// nativeFn is a function value implemented inside the engine (e.g. a context cancel func).
type nativeFn struct {
	name string
	f    func(in *interp, caller *frame, args []value) value
}

func (in *interp) callOpaque(m *opaqueMethod, args []value) value {
	switch m.name {
	case "Error", "String":
		return "opaque:" + m.o.name
	case "MustRegister":
		in.promRegister(args[1:])
		return nil
	case "Unwrap", "Cause":
		if m.o.cause != nil {
			return m.o.cause
		}
		return iface{}
	}
	panic(pathEnd{kind: "error", msg: fmt.Sprintf("unmodelled method %s on opaque %s", m.name, m.o.name)})
}

func (in *interp) callSSA(caller *frame, callpos token.Pos, fn *ssa.Function, args []value, env []value) value {
	fr := &frame{in: in, caller: caller, fn: fn}
	if caller != nil {
		fr.th = caller.th
	}
	if in.trace {
		fmt.Fprintf(os.Stderr, "%*scall %s\n", depth(fr), "", fn)
	}
	fi := in.eng.info(fn)
	if fn.Parent() == nil {
		if ov := fi.ov; ov != nil {
			in.stubsSeen[ov.name]++
			return ov.f(in, fr, args)
		}
		if fi.isPkgInit && !fi.initAllowed {
			return nil
		}
		if !fi.interpretable {
			if in.inInit {
				in.stubsSeen["init-lenient:"+fi.name]++
				return in.zero(fn.Signature.Results())
			}
			panic(pathEnd{kind: "error", msg: "unmodelled call: " + fi.name + " (from " + callerName(caller) + ")"})
		}
		if fn.Blocks == nil {
			panic(pathEnd{kind: "error", msg: "no code for function: " + fi.name})
		}
	}
	if fn.TypeParams().Len() > 0 && len(fn.TypeArgs()) == 0 {
		panic(pathEnd{kind: "error", msg: "uninstantiated generic " + fn.String()})
	}
	in.funcsSeen[fn]++
	fr.info = fi
	fr.env = make([]value, fi.n)
	fr.block = fn.Blocks[0]
	fr.locals = make([]value, len(fn.Locals))
	for i, l := range fn.Locals {
		fr.locals[i] = in.zero(deref(l.Type()))
		fr.set(l, &fr.locals[i])
	}
	for i, p := range fn.Params {
		fr.set(p, args[i])
	}
	for i, fv := range fn.FreeVars {
		fr.set(fv, env[i])
	}
	for fr.block != nil {
		in.runFrame(fr)
	}
	return fr.result
}

func depth(fr *frame) int {
	d := 0
	for f := fr; f != nil; f = f.caller {
		d++
	}
	return d
}

func callerName(fr *frame) string {
	if fr == nil {
		return "<top>"
	}
	return fr.fn.String()
}

func (in *interp) runFrame(fr *frame) {
	defer func() {
		if fr.block == nil {
			return
		}
		p := recover()
		if isControl(p) {
			panic(p)
		}
		if _, ok := p.(targetPanic); !ok {
			// interpreter bug or Go runtime error inside the engine: surface as engine error
			panic(pathEnd{kind: "error", msg: fmt.Sprintf("engine panic in %s: %v", fr.fn, p)})
		}
		fr.panicking = true
		fr.panic = p
		fr.runDefers()
		fr.block = fr.fn.Recover
		if fr.block == nil {
			// recovered, no named results: return zero values
			fr.result = in.zero(fr.fn.Signature.Results())
			if fr.fn.Signature.Results().Len() == 0 {
				fr.result = nil
			}
		}
	}()

	for {
		nonPhis := in.executePhis(fr)
		if fr.prevBlock != nil && fr.th != nil && fr.block.Dominates(fr.prevBlock) {
			in.spinCheck(fr, fr.phitemps[:len(fr.block.Instrs)-len(nonPhis)])
		}
		for _, instr := range nonPhis {
			in.steps++
			if in.steps > in.eng.cfg.StepBudget {
				panic(pathEnd{kind: "budget", msg: fmt.Sprintf("step budget %d exceeded in %s", in.eng.cfg.StepBudget, fr.fn)})
			}
			if in.trace {
				if v, ok := instr.(ssa.Value); ok {
					fmt.Fprintf(os.Stderr, "%*s  %s = %s\n", depth(fr), "", v.Name(), instr)
				} else {
					fmt.Fprintf(os.Stderr, "%*s  %s\n", depth(fr), "", instr)
				}
			}
			in.curInstr, in.curFr = instr, fr
			k := in.visitInstr(fr, instr)
			if k == kReturn {
				return
			}
			if k == kJump {
				in.onJump(fr)
			}
		}
	}
}

// onJump: loop bound and spin detection at back edges.
func (in *interp) onJump(fr *frame) {
	if !fr.block.Dominates(fr.prevBlock) {
		return
	}
	if fr.visits == nil {
		fr.visits = map[*ssa.BasicBlock]int{}
	}
	fr.visits[fr.block]++
	if fr.visits[fr.block] > in.eng.cfg.LoopBound {
		panic(pathEnd{kind: "unwind", msg: fmt.Sprintf("loop bound %d exceeded at %s block %d", in.eng.cfg.LoopBound, fr.fn, fr.block.Index)})
	}
}

func (in *interp) executePhis(fr *frame) []ssa.Instruction {
	firstNonPhi := -1
	for i, instr := range fr.block.Instrs {
		if _, ok := instr.(*ssa.Phi); !ok {
			firstNonPhi = i
			break
		}
	}
	nonPhis := fr.block.Instrs[firstNonPhi:]
	if firstNonPhi > 0 {
		phis := fr.block.Instrs[:firstNonPhi]
		predIndex := slices.Index(fr.block.Preds, fr.prevBlock)
		fr.phitemps = fr.phitemps[:0]
		for _, phi := range phis {
			fr.phitemps = append(fr.phitemps, fr.get(phi.(*ssa.Phi).Edges[predIndex]))
		}
		for i, phi := range phis {
			fr.set(phi.(*ssa.Phi), fr.phitemps[i])
		}
	}
	return nonPhis
}

func (in *interp) doRecover(caller *frame) value {
	if caller != nil && !caller.panicking && caller.caller != nil && caller.caller.panicking {
		caller.caller.panicking = false
		p := caller.caller.panic
		caller.caller.panic = nil
		switch p := p.(type) {
		case targetPanic:
			if p.msg != "" {
				return iface{t: in.eng.opaqueType("runtime.Error"), v: in.opaqueObj("runtime.Error:" + p.msg)}
			}
			return p.v
		default:
			panic(fmt.Sprintf("unexpected panic type %T in target call to recover()", p))
		}
	}
	return iface{}
}

// whereNow describes the current program point (innermost module function and line).
func (in *interp) whereNow() string {
	fr := in.curFr
	for f := fr; f != nil; f = f.caller {
		if f.fn != nil && f.fn.Pkg != nil && in.eng.inModule(f.fn.Pkg.Pkg.Path()) &&
			!strings.Contains(f.fn.Pkg.Pkg.Path(), "/zz") {
			pos := token.NoPos
			if f == fr && in.curInstr != nil {
				pos = in.curInstr.Pos()
			}
			if pos == token.NoPos {
				return f.fn.String()
			}
			p := in.prog.Fset.Position(pos)
			return fmt.Sprintf("%s (%s:%d)", f.fn.String(), shortFile(p.Filename), p.Line)
		}
	}
	if fr != nil && fr.fn != nil {
		return fr.fn.String()
	}
	return "?"
}

func shortFile(f string) string {
	if i := strings.LastIndex(f, "/pkg/"); i >= 0 {
		return f[i+1:]
	}
	return f
}

// bigSlice returns an all-nil slice of n cells from the worker's pool; cells materialised
// during the run are reset when the run ends (see releaseBig).
func (in *interp) bigSlice(n int) []value {
	w := in.r.w
	if w.pool == nil {
		w.pool = map[int][][]value{}
	}
	var s []value
	if l := w.pool[n]; len(l) > 0 {
		s = l[len(l)-1]
		w.pool[n] = l[:len(l)-1]
	} else {
		s = make([]value, n)
	}
	in.bigTaken = append(in.bigTaken, s)
	return s
}

func (in *interp) releaseBig() {
	for _, p := range in.lazyCells {
		*p = nil
	}
	w := in.r.w
	if w.pool == nil {
		w.pool = map[int][][]value{}
	}
	for _, s := range in.bigTaken {
		w.pool[len(s)] = append(w.pool[len(s)], s)
	}
	in.bigTaken, in.lazyCells = nil, nil
}

func (fr *frame) set(key ssa.Value, v value) {
	if v == nil {
		v = nilValue{}
	}
	fr.env[fr.info.idx[key]] = v
}

// nilValue stands for a Go nil stored in the environment (results of calls without value).
type nilValue struct{}
