package exec

import (
	"go/types"
)

// ---------------- net/http client + singleflight models (follower read path, C18) ----------------
//
// (*http.Client).Get(url) calls the handler installed by zzverif.SetHTTPHandler in the calling
// thread and turns its HTTPResult into a *http.Response (status code + body reader) or an error.
// io.ReadAll / ioutil.ReadAll on such a body return the bytes, or an error when the body was cut.
// singleflight.Group.Do: callers that arrive while a call is in flight wait for and share its result.

type httpBody struct {
	data []value
	cut  bool
}

func (b *httpBody) callMethod(in *interp, fr *frame, name string, args []value) value {
	switch name {
	case "Close":
		return iface{}
	}
	panic(pathEnd{kind: "error", msg: "http body method " + name})
}

type sfCall struct {
	done bool
	res  tuple
	dups int
}

func fieldIndex(t types.Type, name string) int {
	st := t.Underlying().(*types.Struct)
	for i := 0; i < st.NumFields(); i++ {
		if st.Field(i).Name() == name {
			return i
		}
	}
	panic("no field " + name)
}

func registerHTTP(e *Engine) {
	e.reg(zz+"SetHTTPHandler", func(in *interp, fr *frame, a []value) value { in.httpHandler = a[0]; return nil })
	// func (f HandlerFunc) ServeHTTP(w, r) { f(w, r) }
	e.reg("(net/http.HandlerFunc).ServeHTTP", func(in *interp, fr *frame, a []value) value {
		in.call(fr, 0, a[0], []value{a[1], a[2]})
		return nil
	})
	e.reg(zz+"HTTPAddr", func(in *interp, fr *frame, a []value) value { return "leader.test:1" })
	e.reg("(*net/http.Client).Get", func(in *interp, fr *frame, a []value) value {
		if in.httpHandler == nil {
			return tuple{(*value)(nil), in.newErr("http: no handler installed", nil)}
		}
		in.sch.yield("http.Get")
		t := in.sch.cur
		saved := t.label
		t.label = "" // natively the handler runs in the server's goroutine
		r := in.call(fr, 0, in.httpHandler, []value{a[1]}).(structure)
		t.label = saved
		rt := in.eng.namedType(zzPkgPath, "HTTPResult")
		if in.r.branch(term(r[fieldIndex(rt, "Unreachable")]), "http-unreachable") {
			return tuple{(*value)(nil), in.newErr("http: connection failed", in.sentinel("io", "EOF"))}
		}
		respT := in.eng.namedType("net/http", "Response")
		resp := in.zero(respT).(structure)
		resp[fieldIndex(respT, "StatusCode")] = r[fieldIndex(rt, "Status")]
		body, _ := r[fieldIndex(rt, "Body")].([]value)
		cut := in.r.branch(term(r[fieldIndex(rt, "BodyCut")]), "http-body-cut")
		resp[fieldIndex(respT, "Body")] = iface{t: in.eng.opaqueType("http.body"), v: &httpBody{data: body, cut: cut}}
		var v value = resp
		return tuple{&v, iface{}}
	})
	e.reg("(*net/http.Client).CloseIdleConnections", func(in *interp, fr *frame, a []value) value { return nil })
	e.reg("net/http.ProxyFromEnvironment", func(in *interp, fr *frame, a []value) value { return tuple{(*value)(nil), iface{}} })
	readAll := func(in *interp, fr *frame, a []value) value {
		b, ok := a[0].(iface).v.(*httpBody)
		if !ok {
			panic(pathEnd{kind: "error", msg: "io.ReadAll on an unmodelled reader"})
		}
		if b.cut {
			return tuple{[]value(nil), in.sentinel("io", "ErrUnexpectedEOF")}
		}
		return tuple{append([]value{}, b.data...), iface{}}
	}
	e.reg("io.ReadAll", readAll)
	e.reg("io/ioutil.ReadAll", readAll)
	// a JSON decoder over the body (used by a variant of the read path)
	e.reg("encoding/json.NewDecoder", func(in *interp, fr *frame, a []value) value {
		return box(a[0])
	})
	e.reg("(*encoding/json.Decoder).Decode", func(in *interp, fr *frame, a []value) value {
		rd := (*a[0].(*value)).(iface)
		b, ok := rd.v.(*httpBody)
		if !ok {
			panic(pathEnd{kind: "error", msg: "json.Decoder over an unmodelled reader"})
		}
		if b.cut {
			return in.sentinel("io", "ErrUnexpectedEOF")
		}
		tgt := a[1].(iface)
		pt := tgt.t.Underlying().(*types.Pointer)
		pos := 0
		v, ok := in.decodeJSON(pt.Elem(), in.sliceBytes(b.data), &pos)
		if !ok {
			return in.newErr("json: cannot decode", nil)
		}
		store(pt.Elem(), tgt.v.(*value), v)
		return iface{}
	})
	e.reg("(*golang.org/x/sync/singleflight.Group).Do", func(in *interp, fr *frame, a []value) value {
		g := a[0].(*value)
		in.sch.yield("singleflight.Do")
		if in.flights == nil {
			in.flights = map[*value]*sfCall{}
		}
		if c := in.flights[g]; c != nil {
			c.dups++
			in.sch.block(func() bool { return c.done }, "singleflight wait")
			return tuple{c.res[0], c.res[1], in.ctx.T}
		}
		c := &sfCall{}
		in.flights[g] = c
		c.res = in.call(fr, 0, a[2], nil).(tuple)
		in.sch.yield("singleflight.done")
		c.done = true
		delete(in.flights, g)
		in.sch.wepoch++
		return tuple{c.res[0], c.res[1], in.ctx.Bool(c.dups > 0)}
	})
}

const zzPkgPath = "github.com/kubewharf/kubebrain/pkg/zzverif"
