package exec

import (
	"fmt"
	"math"
	"strings"

	"gosym/sym"
)

const outOfRange = math.MinInt64

// run holds the path condition, the decision trace and the solver scope of one execution.
type run struct {
	in      *interp
	w       *worker
	prefix  []int64
	trace   []int64
	kinds   []byte // per decision: 'b' branch, 'c' choose, 'i' int split, 's' schedule
	pc      []*sym.Term
	pcset   map[*sym.Term]bool
	pending [][]int64 // alternative prefixes discovered by this run
	inconcl []string
	nontriv int // decisions/asserts with a non-constant condition
	viol    *Violation
	covers  map[string]bool
	asserts int
}

func (r *run) pos() int { return len(r.trace) }

func (r *run) assertPC(t *sym.Term) {
	if t.IsTrue() || r.pcset[t] {
		return
	}
	r.pc = append(r.pc, t)
	r.pcset[t] = true
	var sb strings.Builder
	name := r.in.ctx.Define(&sb, t)
	sb.WriteString("(assert " + name + ")\n")
	if err := r.w.solver.Send(sb.String()); err != nil {
		panic(pathEnd{kind: "error", msg: "solver: " + err.Error()})
	}
}

// feasible asks whether pc ∧ t is satisfiable.
func (r *run) feasible(t *sym.Term) sym.Result {
	if t.IsFalse() {
		return sym.Unsat
	}
	var sb strings.Builder
	name := r.in.ctx.Define(&sb, t)
	if err := r.w.solver.Send(sb.String()); err != nil {
		panic(pathEnd{kind: "error", msg: "solver: " + err.Error()})
	}
	res, err := r.w.solver.Check("(push 1)\n(assert " + name + ")\n")
	if err != nil {
		panic(pathEnd{kind: "error", msg: "solver: " + err.Error()})
	}
	r.w.lastSat = res == sym.Sat
	if res != sym.Sat {
		r.w.solver.Send("(pop 1)\n")
	}
	// on Sat the scope stays open so the caller may fetch a model; closeQuery pops it.
	return res
}

func (r *run) closeQuery() {
	if r.w.lastSat {
		r.w.solver.Send("(pop 1)\n")
		r.w.lastSat = false
	}
}

func (r *run) model() map[string]uint64 {
	m, err := r.w.solver.Model(r.in.ctx.Vars)
	if err != nil {
		panic(pathEnd{kind: "error", msg: "model: " + err.Error()})
	}
	return m
}

func (r *run) record(kind byte, choice int64) {
	r.trace = append(r.trace, choice)
	r.kinds = append(r.kinds, kind)
}

func (r *run) fork(choice int64) {
	alt := make([]int64, len(r.trace)+1)
	copy(alt, r.trace)
	alt[len(r.trace)] = choice
	r.pending = append(r.pending, alt)
}

// branch decides a Boolean condition.
func (r *run) branch(cond *sym.Term, what string) bool {
	if cond.IsConst() {
		return cond.K == 1
	}
	c := r.in.ctx
	if r.pcset[cond] {
		return true
	}
	ncond := c.Not(cond)
	if r.pcset[ncond] {
		return false
	}
	r.nontriv++
	var take bool
	if p := r.pos(); p < len(r.prefix) {
		take = r.prefix[p] == 1
	} else {
		rt := r.feasible(cond)
		r.closeQuery()
		switch rt {
		case sym.Unsat:
			take = false
		case sym.Unknown:
			r.inconcl = append(r.inconcl, "branch("+what+") unknown")
			take = true
			r.fork(0)
		default:
			rf := r.feasible(ncond)
			r.closeQuery()
			take = true
			if rf != sym.Unsat {
				if rf == sym.Unknown {
					r.inconcl = append(r.inconcl, "branch("+what+") unknown")
				}
				r.fork(0)
			}
		}
	}
	if take {
		r.record('b', 1)
		r.assertPC(cond)
	} else {
		r.record('b', 0)
		r.assertPC(ncond)
	}
	return take
}

// choose picks a value in 0..n-1; every alternative is explored.
func (r *run) choose(n int, kind byte) int {
	if n <= 1 {
		return 0
	}
	if p := r.pos(); p < len(r.prefix) {
		v := r.prefix[p]
		r.record(kind, v)
		return int(v)
	}
	for i := n - 1; i >= 1; i-- {
		r.fork(int64(i))
	}
	r.record(kind, 0)
	return 0
}

// splitInt concretises a symbolic integer by enumerating its feasible values in [lo,hi]
// (model-guided), plus the out-of-range alternative.
func (r *run) splitInt(t *sym.Term, lo, hi int64, what string) (int64, bool) {
	c := r.in.ctx
	r.nontriv++
	signedIn := c.And(c.Cmp(sym.OpSLe, c.Const(64, uint64(lo)), t), c.Cmp(sym.OpSLe, t, c.Const(64, uint64(hi))))
	var v int64
	if p := r.pos(); p < len(r.prefix) {
		v = r.prefix[p]
	} else {
		var vals []int64
		excl := c.T
		if hi >= lo {
			for len(vals) < r.in.eng.cfg.MaxSplit {
				q := c.And(signedIn, excl)
				res := r.feasible(q)
				if res == sym.Unknown {
					r.inconcl = append(r.inconcl, "split("+what+") unknown")
					r.closeQuery()
					break
				}
				if res == sym.Unsat {
					break
				}
				m := r.model()
				r.closeQuery()
				x := int64(sym.Eval(t, m, map[*sym.Term]uint64{}))
				vals = append(vals, x)
				excl = c.And(excl, c.Not(c.Eq(t, c.Const(64, uint64(x)))))
			}
			if len(vals) >= r.in.eng.cfg.MaxSplit {
				panic(pathEnd{kind: "unwind", msg: fmt.Sprintf("more than %d feasible values for symbolic %s", r.in.eng.cfg.MaxSplit, what)})
			}
		}
		res := r.feasible(c.Not(signedIn))
		r.closeQuery()
		if res != sym.Unsat {
			if res == sym.Unknown {
				r.inconcl = append(r.inconcl, "split("+what+") unknown")
			}
			vals = append(vals, outOfRange)
		}
		if len(vals) == 0 {
			panic(pathEnd{kind: "infeasible", msg: "no value for " + what})
		}
		v = vals[0]
		for _, a := range vals[1:] {
			r.fork(a)
		}
	}
	r.record('i', v)
	if v == outOfRange {
		r.assertPC(c.Not(signedIn))
		return 0, false
	}
	r.assertPC(c.Eq(t, c.Const(64, uint64(v))))
	return v, true
}

// Violation is a failed assertion (or panic / deadlock) with the model that triggers it.
type Violation struct {
	Kind     string            `json:"kind"` // assert | panic | deadlock | race
	Label    string            `json:"label"`
	Msg      string            `json:"msg,omitempty"`
	Model    map[string]uint64 `json:"model"`
	Trace    []int64           `json:"decisions"`
	Kinds    string            `json:"decision_kinds"`
	Observes []string          `json:"observes,omitempty"`
	Stack    []string          `json:"stack,omitempty"`
	Findings []string          `json:"findings,omitempty"`
	Choices  map[string]int    `json:"choices,omitempty"`
	Schedule []string          `json:"schedule,omitempty"`
	Ungated  int               `json:"ungated,omitempty"`
	PC       []string          `json:"path_condition,omitempty"`
	Cond     string            `json:"failed_condition,omitempty"`
	// Alternates are further executions failing the same assertion under a different schedule.
	Alternates []*Violation `json:"alternates,omitempty"`
}

func (r *run) assume(cond *sym.Term) {
	if cond.IsTrue() {
		return
	}
	if cond.IsFalse() {
		panic(pathEnd{kind: "assume"})
	}
	if r.pcset[cond] {
		return
	}
	res := r.feasible(cond)
	r.closeQuery()
	switch res {
	case sym.Unsat:
		panic(pathEnd{kind: "assume"})
	case sym.Unknown:
		r.inconcl = append(r.inconcl, "assume unknown")
	}
	r.assertPC(cond)
}

func (r *run) assert(cond *sym.Term, label string, fr *frame) {
	r.asserts++
	if cond.IsTrue() || r.pcset[cond] {
		return
	}
	r.nontriv++
	res := r.feasible(r.in.ctx.Not(cond))
	switch res {
	case sym.Unsat:
		r.assertPC(cond)
	case sym.Unknown:
		r.inconcl = append(r.inconcl, "assert("+label+") unknown")
		r.assertPC(cond)
	case sym.Sat:
		m := r.model()
		r.closeQuery()
		r.viol = &Violation{Kind: "assert", Label: label, Model: m, Stack: stackOf(fr), Cond: cond.String()}
		panic(pathEnd{kind: "violation", msg: label})
	}
}

func stackOf(fr *frame) []string {
	var s []string
	for f := fr; f != nil && len(s) < 12; f = f.caller {
		s = append(s, f.fn.String())
	}
	return s
}

// fail records a violation that holds for every model of the current path condition.
func (r *run) fail(kind, label, msg string, fr *frame) {
	m := map[string]uint64{}
	func() {
		defer r.w.solver.Send("(pop 1)\n")
		rs, err := r.w.solver.Check("(push 1)\n")
		if err == nil && rs == sym.Sat {
			m = r.model()
		} else {
			r.inconcl = append(r.inconcl, "model for "+kind+" unavailable")
		}
	}()
	r.viol = &Violation{Kind: kind, Label: label, Msg: msg, Model: m, Stack: stackOf(fr)}
	panic(pathEnd{kind: "violation", msg: label})
}

func (r *run) cover(label string) {
	if r.covers == nil {
		r.covers = map[string]bool{}
	}
	r.covers[label] = true // pc is satisfiable by construction
}
