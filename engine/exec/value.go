// Package exec is gosym's symbolic executor for Go SSA. Its frame / call / defer / panic
// skeleton is derived from golang.org/x/tools/go/ssa/interp (BSD licence, The Go Authors);
// the value domain, control decisions, scheduler and externals are gosym's own.
package exec

// Values (dynamic types inside the empty interface `value`):
//
//   *sym.Term          bool (W==0) and every integer type (W = bit width)
//   float64            all floating-point types (opaque; never symbolic)
//   string | *symstr   strings: fully concrete, or with symbolic bytes
//   []value            slices           array            arrays
//   structure          structs          *value           pointers
//   iface              interfaces       *omap            maps (insertion ordered)
//   *channel           channels         *ssa.Function, *closure, *ssa.Builtin functions
//   tuple              multi-value results    iter   range iterators
//   *opaque            third-party objects that are never inspected

import (
	"bytes"
	"fmt"
	"go/types"
	"strconv"
	"strings"

	"golang.org/x/tools/go/ssa"

	"gosym/sym"
)

type value interface{}
type tuple []value
type array []value
type structure []value

type iface struct {
	t types.Type
	v value
}

type closure struct {
	Fn  *ssa.Function
	Env []value
}

type bad struct{}

// symstr is a string with at least one symbolic byte.
type symstr struct{ b []*sym.Term }

// opaque is an uninspectable object (e.g. a third-party sentinel error).
type opaque struct {
	name  string
	cause value // wrapped error, if any (iface)
	data  map[string]value
}

type iter interface{ next() tuple }

// ---- type helpers ----

func deref(t types.Type) types.Type {
	if p, ok := t.Underlying().(*types.Pointer); ok {
		return p.Elem()
	}
	panic(fmt.Sprintf("deref of non-pointer %s", t))
}

// intInfo returns width and signedness for integer and bool basic types.
func intInfo(t types.Type) (w uint8, signed bool, ok bool) {
	b, isb := t.Underlying().(*types.Basic)
	if !isb {
		return 0, false, false
	}
	switch b.Kind() {
	case types.Bool, types.UntypedBool:
		return 0, false, true
	case types.Int, types.Int64, types.UntypedInt:
		return 64, true, true
	case types.Int8:
		return 8, true, true
	case types.Int16:
		return 16, true, true
	case types.Int32, types.UntypedRune:
		return 32, true, true
	case types.Uint, types.Uint64, types.Uintptr:
		return 64, false, true
	case types.Uint8:
		return 8, false, true
	case types.Uint16:
		return 16, false, true
	case types.Uint32:
		return 32, false, true
	}
	return 0, false, false
}

func isString(t types.Type) bool {
	b, ok := t.Underlying().(*types.Basic)
	return ok && b.Info()&types.IsString != 0
}

func isFloat(t types.Type) bool {
	b, ok := t.Underlying().(*types.Basic)
	return ok && b.Info()&types.IsFloat != 0
}

// ---- strings ----

func (in *interp) strBytes(s value) []*sym.Term {
	switch s := s.(type) {
	case string:
		out := make([]*sym.Term, len(s))
		for i := 0; i < len(s); i++ {
			out[i] = in.ctx.Const(8, uint64(s[i]))
		}
		return out
	case *symstr:
		return s.b
	}
	panic(fmt.Sprintf("strBytes: %T", s))
}

func strLen(s value) int {
	switch s := s.(type) {
	case *fmtstr:
		panic(pathEnd{kind: "error", msg: "length of a string formatted from symbolic integers"})
	case string:
		return len(s)
	case *symstr:
		return len(s.b)
	}
	panic(fmt.Sprintf("strLen: %T", s))
}

// mkStr normalises a byte-term list to a concrete string when possible.
func mkStr(b []*sym.Term) value {
	for _, t := range b {
		if !t.IsConst() {
			cp := make([]*sym.Term, len(b))
			copy(cp, b)
			return &symstr{cp}
		}
	}
	bs := make([]byte, len(b))
	for i, t := range b {
		bs[i] = byte(t.K)
	}
	return string(bs)
}

func (in *interp) sliceBytes(x []value) []*sym.Term {
	out := make([]*sym.Term, len(x))
	for i, e := range x {
		if e == nil {
			out[i] = in.ctx.Const(8, 0)
		} else {
			out[i] = e.(*sym.Term)
		}
	}
	return out
}

func termsToSlice(b []*sym.Term) []value {
	out := make([]value, len(b))
	for i, t := range b {
		out[i] = t
	}
	return out
}

// bytesEq returns the term "a == b" for byte sequences.
func (in *interp) bytesEq(a, b []*sym.Term) *sym.Term {
	c := in.ctx
	if len(a) != len(b) {
		return c.F
	}
	r := c.T
	for i := range a {
		r = c.And(r, c.Eq(a[i], b[i]))
		if r.IsFalse() {
			return r
		}
	}
	return r
}

// bytesLt returns the term "a < b" (lexicographic, unsigned bytes).
func (in *interp) bytesLt(a, b []*sym.Term) *sym.Term {
	c := in.ctx
	n := len(a)
	if len(b) < n {
		n = len(b)
	}
	r := c.Bool(len(a) < len(b))
	for i := n - 1; i >= 0; i-- {
		r = c.Or(c.Cmp(sym.OpULt, a[i], b[i]), c.And(c.Eq(a[i], b[i]), r))
	}
	return r
}

// bytesCmp returns the 64-bit term for bytes.Compare(a,b) ∈ {-1,0,1}.
func (in *interp) bytesCmp(a, b []*sym.Term) *sym.Term {
	c := in.ctx
	lt := in.bytesLt(a, b)
	eq := in.bytesEq(a, b)
	return c.Ite(lt, c.Const(64, ^uint64(0)), c.Ite(eq, c.Const(64, 0), c.Const(64, 1)))
}

// ---- zero values ----

func (in *interp) zero(t types.Type) value {
	switch t := t.(type) {
	case *types.Basic:
		if t.Kind() == types.UntypedNil {
			panic("untyped nil has no zero value")
		}
		if w, _, ok := intInfo(t); ok {
			if w == 0 {
				return in.ctx.F
			}
			return in.ctx.Const(w, 0)
		}
		switch {
		case t.Info()&types.IsFloat != 0:
			return float64(0)
		case t.Info()&types.IsString != 0:
			return ""
		case t.Kind() == types.UnsafePointer:
			return (*value)(nil)
		}
		panic(fmt.Sprint("zero for unexpected basic type: ", t))
	case *types.Pointer:
		return (*value)(nil)
	case *types.Array:
		if t.Len() > 4096 { // large arrays are materialised lazily by indexAddr
			return array(in.bigSlice(int(t.Len())))
		}
		a := make(array, t.Len())
		for i := range a {
			a[i] = in.zero(t.Elem())
		}
		return a
	case *types.Named:
		return in.zero(t.Underlying())
	case *types.Alias:
		return in.zero(types.Unalias(t))
	case *types.Interface:
		return iface{}
	case *types.Slice:
		return []value(nil)
	case *types.Struct:
		s := make(structure, t.NumFields())
		for i := range s {
			s[i] = in.zero(t.Field(i).Type())
		}
		return s
	case *types.Tuple:
		if t.Len() == 1 {
			return in.zero(t.At(0).Type())
		}
		s := make(tuple, t.Len())
		for i := range s {
			s[i] = in.zero(t.At(i).Type())
		}
		return s
	case *types.Chan:
		return (*channel)(nil)
	case *types.Map:
		return (*omap)(nil)
	case *types.Signature:
		return (*ssa.Function)(nil)
	case *types.TypeParam:
		panic("zero of type parameter")
	}
	panic(fmt.Sprint("zero: unexpected ", t))
}

// ---- equality (returns a Bool term) ----

func (in *interp) equals(t types.Type, x, y value) *sym.Term {
	c := in.ctx
	switch x := x.(type) {
	case *sym.Term:
		return c.Eq(x, y.(*sym.Term))
	case float64:
		return c.Bool(x == y.(float64))
	case string:
		if ys, ok := y.(string); ok {
			return c.Bool(x == ys)
		}
		if yf, ok := y.(*fmtstr); ok {
			return in.fmtstrEq(yf, x)
		}
		return in.bytesEq(in.strBytes(x), in.strBytes(y))
	case *symstr:
		return in.bytesEq(x.b, in.strBytes(y))
	case *fmtstr:
		return in.fmtstrEq(x, y)
	case *value:
		return c.Bool(x == y.(*value))
	case *channel:
		return c.Bool(x == y.(*channel))
	case *opaque:
		yo, ok := y.(*opaque)
		return c.Bool(ok && x == yo)
	case structure:
		y := y.(structure)
		st := t.Underlying().(*types.Struct)
		r := c.T
		for i := 0; i < st.NumFields(); i++ {
			if f := st.Field(i); f.Name() != "_" {
				r = c.And(r, in.equals(f.Type(), x[i], y[i]))
			}
		}
		return r
	case array:
		y := y.(array)
		et := t.Underlying().(*types.Array).Elem()
		r := c.T
		for i := range x {
			r = c.And(r, in.equals(et, x[i], y[i]))
		}
		return r
	case iface:
		y := y.(iface)
		if x.t == nil || y.t == nil {
			return c.Bool(x.t == nil && y.t == nil)
		}
		if !types.Identical(x.t, y.t) {
			return c.F
		}
		return in.equals(x.t, x.v, y.v)
	case *ssa.Function, *closure, *ssa.Builtin, []value, *omap:
		panic(fmt.Sprintf("comparing uncomparable type %s", t))
	}
	panic(fmt.Sprintf("equals: unexpected %T (type %s)", x, t))
}

// eqnil handles comparisons against literal nil for map, func, slice, chan, pointer, interface.
func (in *interp) isNil(x value) bool {
	switch x := x.(type) {
	case nil:
		return true
	case *value:
		return x == nil
	case []value:
		return x == nil
	case *omap:
		return x == nil
	case *channel:
		return x == nil
	case *ssa.Function:
		return x == nil
	case *closure:
		return x == nil
	case *ssa.Builtin:
		return x == nil
	case iface:
		return x.t == nil
	case *opaque:
		return x == nil
	case *nativeFn:
		return x == nil
	case *opaqueMethod:
		return x == nil
	}
	panic(fmt.Sprintf("isNil: %T", x))
}

// ---- load / store with aggregate copy ----

func load(T types.Type, addr *value) value {
	switch T := T.Underlying().(type) {
	case *types.Struct:
		v := (*addr).(structure)
		a := make(structure, len(v))
		for i := range a {
			a[i] = load(T.Field(i).Type(), &v[i])
		}
		return a
	case *types.Array:
		v := (*addr).(array)
		a := make(array, len(v))
		for i := range a {
			a[i] = load(T.Elem(), &v[i])
		}
		return a
	default:
		return *addr
	}
}

func store(T types.Type, addr *value, v value) {
	switch T := T.Underlying().(type) {
	case *types.Struct:
		lhs := (*addr).(structure)
		rhs := v.(structure)
		for i := range lhs {
			store(T.Field(i).Type(), &lhs[i], rhs[i])
		}
	case *types.Array:
		lhs := (*addr).(array)
		rhs := v.(array)
		for i := range lhs {
			store(T.Elem(), &lhs[i], rhs[i])
		}
	default:
		*addr = v
	}
}

// ---- printing ----

func writeValue(buf *bytes.Buffer, v value, depth int) {
	if depth > 6 {
		buf.WriteString("…")
		return
	}
	switch v := v.(type) {
	case nil:
		buf.WriteString("<nil>")
	case *sym.Term:
		if v.IsConst() {
			if v.W == 0 {
				fmt.Fprintf(buf, "%v", v.K == 1)
			} else {
				fmt.Fprintf(buf, "%d", v.K)
			}
		} else {
			buf.WriteString("«" + v.String() + "»")
		}
	case float64:
		fmt.Fprintf(buf, "%v", v)
	case string:
		fmt.Fprintf(buf, "%q", v)
	case *symstr:
		buf.WriteString("symstr[")
		for i, b := range v.b {
			if i > 0 {
				buf.WriteString(" ")
			}
			writeValue(buf, b, depth+1)
		}
		buf.WriteString("]")
	case *omap:
		if v == nil {
			buf.WriteString("map[]")
			return
		}
		buf.WriteString("map[")
		for i, k := range v.keys {
			if i > 0 {
				buf.WriteString(" ")
			}
			writeValue(buf, k, depth+1)
			buf.WriteString(":")
			writeValue(buf, v.vals[i], depth+1)
		}
		buf.WriteString("]")
	case *channel:
		fmt.Fprintf(buf, "chan%p", v)
	case *value:
		if v == nil {
			buf.WriteString("<nil>")
		} else {
			buf.WriteString("&")
			writeValue(buf, *v, depth+1)
		}
	case iface:
		if v.t == nil {
			buf.WriteString("<nil>")
			return
		}
		fmt.Fprintf(buf, "(%s)", v.t)
		writeValue(buf, v.v, depth+1)
	case structure:
		buf.WriteString("{")
		for i, e := range v {
			if i > 0 {
				buf.WriteString(" ")
			}
			writeValue(buf, e, depth+1)
		}
		buf.WriteString("}")
	case array:
		writeSeq(buf, []value(v), depth)
	case []value:
		writeSeq(buf, v, depth)
	case tuple:
		writeSeq(buf, []value(v), depth)
	case *ssa.Function, *ssa.Builtin, *closure:
		fmt.Fprintf(buf, "func%p", v)
	case *opaque:
		if v == nil {
			buf.WriteString("<nil opaque>")
		} else {
			buf.WriteString("opaque(" + v.name + ")")
		}
	default:
		fmt.Fprintf(buf, "<%T>", v)
	}
}

func writeSeq(buf *bytes.Buffer, v []value, depth int) {
	// byte-like sequences print compactly
	buf.WriteString("[")
	for i, e := range v {
		if i > 0 {
			buf.WriteString(" ")
		}
		if i > 40 {
			buf.WriteString("…")
			break
		}
		writeValue(buf, e, depth+1)
	}
	buf.WriteString("]")
}

func toString(v value) string {
	var b bytes.Buffer
	writeValue(&b, v, 0)
	return b.String()
}

// ---- ordered map ----

type omap struct {
	keys  []value
	vals  []value
	ktype types.Type
	cell  value // one abstract memory location for the race monitor (Go's detector treats a map the same way)
}

// concreteKey returns a Go-comparable key for fully concrete basic/pointer keys.
func concreteKey(k value) (interface{}, bool) {
	switch k := k.(type) {
	case *sym.Term:
		if k.IsConst() {
			return [2]uint64{uint64(k.W), k.K}, true
		}
		return nil, false
	case string:
		return k, true
	case float64:
		return k, true
	case *value:
		return k, true
	case *channel:
		return k, true
	case *opaque:
		return k, true
	}
	return nil, false
}

func (in *interp) mapFind(m *omap, k value) int {
	if m == nil {
		return -1
	}
	ck, cok := concreteKey(k)
	for i, kk := range m.keys {
		if cok {
			if ck2, ok2 := concreteKey(kk); ok2 {
				if ck == ck2 {
					return i
				}
				continue
			}
		}
		eq := in.equals(m.ktype, kk, k)
		if in.cur().branch(eq, "map-key") {
			return i
		}
	}
	return -1
}

func (in *interp) mapLookup(m *omap, k value) (value, bool) {
	if m != nil && in.race != nil {
		in.race.read(in.sch.cur, &m.cell, false)
	}
	i := in.mapFind(m, k)
	if i < 0 {
		return nil, false
	}
	return m.vals[i], true
}

func (in *interp) mapInsert(m *omap, k, v value) {
	if m == nil {
		panic(targetPanic{v: "assignment to entry in nil map"})
	}
	if in.race != nil {
		in.race.write(in.sch.cur, &m.cell, false)
	}
	i := in.mapFind(m, k)
	if i >= 0 {
		m.vals[i] = copyVal(v)
		return
	}
	m.keys = append(m.keys, copyVal(k))
	m.vals = append(m.vals, copyVal(v))
}

func (in *interp) mapDelete(m *omap, k value) {
	if m != nil && in.race != nil {
		in.race.write(in.sch.cur, &m.cell, false)
	}
	i := in.mapFind(m, k)
	if i < 0 {
		return
	}
	m.keys = append(m.keys[:i:i], m.keys[i+1:]...)
	m.vals = append(m.vals[:i:i], m.vals[i+1:]...)
}

type mapIter struct {
	keys, vals []value
	i          int
	in         *interp
}

func (it *mapIter) next() tuple {
	if it.i >= len(it.keys) {
		return tuple{it.in.ctx.F, nil, nil}
	}
	k, v := it.keys[it.i], it.vals[it.i]
	it.i++
	return tuple{it.in.ctx.T, k, v}
}

type stringIter struct {
	*strings.Reader
	i  int
	in *interp
}

func (it *stringIter) next() tuple {
	okv := make(tuple, 3)
	ch, n, err := it.ReadRune()
	ok := err == nil
	okv[0] = it.in.ctx.Bool(ok)
	if ok {
		okv[1] = it.in.ctx.Const(64, uint64(it.i))
		okv[2] = it.in.ctx.Const(32, uint64(ch))
	}
	it.i += n
	return okv
}

// copyVal returns a copy of v in which aggregates stored by value (structs, arrays) are fresh.
func copyVal(v value) value {
	switch v := v.(type) {
	case structure:
		a := make(structure, len(v))
		for i := range v {
			a[i] = copyVal(v[i])
		}
		return a
	case array:
		a := make(array, len(v))
		for i := range v {
			a[i] = copyVal(v[i])
		}
		return a
	case iface:
		// the dynamic value of an interface is immutable; aggregates inside are copied on extraction
		return v
	}
	return v
}

// fmtstrEq compares a piece string (literals with decimal renderings of integer terms in between)
// with another string value: with itself, with a piece string of the same literal skeleton (equal
// iff the numbers are equal; the skeletons the code under check produces separate numbers by
// non-digit text), or with a concrete string (matched against the skeleton).
func (in *interp) fmtstrEq(x *fmtstr, y value) *sym.Term {
	c := in.ctx
	switch y := y.(type) {
	case *fmtstr:
		if x == y {
			return c.T
		}
		if len(x.lit) != len(y.lit) {
			return c.F
		}
		for i := range x.lit {
			if x.lit[i] != y.lit[i] {
				return c.F
			}
		}
		r := c.T
		for i := range x.num {
			a, b := x.num[i], y.num[i]
			if a.W != b.W {
				a, b = c.Resize(a, 64, x.sign[i]), c.Resize(b, 64, y.sign[i])
			}
			r = c.And(r, c.Eq(a, b))
		}
		return r
	case string:
		rest := y
		if !strings.HasPrefix(rest, x.lit[0]) {
			return c.F
		}
		rest = rest[len(x.lit[0]):]
		r := c.T
		for i, n := range x.num {
			j := 0
			if x.sign[i] && j < len(rest) && rest[j] == '-' {
				j++
			}
			for j < len(rest) && rest[j] >= '0' && rest[j] <= '9' {
				j++
			}
			digits := rest[:j]
			rest = rest[j:]
			if !strings.HasPrefix(rest, x.lit[i+1]) {
				return c.F
			}
			rest = rest[len(x.lit[i+1]):]
			var t *sym.Term
			if x.sign[i] {
				v, err := strconv.ParseInt(digits, 10, 64)
				if err != nil {
					return c.F
				}
				t = c.Const(n.W, uint64(v))
			} else {
				v, err := strconv.ParseUint(digits, 10, 64)
				if err != nil || (len(digits) > 1 && digits[0] == '0') {
					return c.F
				}
				t = c.Const(n.W, v)
			}
			r = c.And(r, c.Eq(n, t))
		}
		if rest != "" {
			return c.F
		}
		return r
	}
	panic(fmt.Sprintf("comparing a formatted string with %T", y))
}
