package exec

import (
	"fmt"
	"go/types"
	"strings"

	"golang.org/x/tools/go/ssa"

	"gosym/sym"
)

// ---------------- sync, sync/atomic ----------------

type mutexState struct {
	locked  bool
	readers int
	owner   int
}

func (in *interp) mstate(p *value) *mutexState {
	if in.mutexes == nil {
		in.mutexes = map[*value]*mutexState{}
	}
	m := in.mutexes[p]
	if m == nil {
		m = &mutexState{}
		in.mutexes[p] = m
	}
	return m
}

type wgState struct{ n int64 }

// sync.Map: an association list per map object; every method is one atomic visible operation.
type syncMapState struct {
	keys, vals []value
}

func (in *interp) syncMap(p *value) *syncMapState {
	if in.syncMaps == nil {
		in.syncMaps = map[*value]*syncMapState{}
	}
	m := in.syncMaps[p]
	if m == nil {
		m = &syncMapState{}
		in.syncMaps[p] = m
	}
	return m
}

func (in *interp) syncMapFind(m *syncMapState, k value) int {
	ki := k.(iface)
	for i, o := range m.keys {
		oi := o.(iface)
		if oi.t == nil || ki.t == nil || !types.Identical(oi.t, ki.t) {
			continue
		}
		if in.r.branch(in.equals(ki.t, oi.v, ki.v), "sync.Map-key") {
			return i
		}
	}
	return -1
}

func registerSyncMap(e *Engine) {
	e.reg("(*sync.Map).Load", func(in *interp, fr *frame, a []value) value {
		p := a[0].(*value)
		in.sch.yield("sync.Map.Load")
		if in.race != nil {
			in.race.acquire(in.sch.cur, p)
		}
		m := in.syncMap(p)
		if i := in.syncMapFind(m, a[1]); i >= 0 {
			return tuple{m.vals[i], in.ctx.T}
		}
		return tuple{iface{}, in.ctx.F}
	})
	store := func(in *interp, p *value, k, v value) {
		m := in.syncMap(p)
		if i := in.syncMapFind(m, k); i >= 0 {
			m.vals[i] = v
		} else {
			m.keys, m.vals = append(m.keys, k), append(m.vals, v)
		}
		if in.race != nil {
			in.race.release(in.sch.cur, p)
		}
		in.sch.wepoch++
	}
	e.reg("(*sync.Map).Store", func(in *interp, fr *frame, a []value) value {
		p := a[0].(*value)
		in.sch.yield("sync.Map.Store")
		store(in, p, a[1], a[2])
		return nil
	})
	e.reg("(*sync.Map).LoadOrStore", func(in *interp, fr *frame, a []value) value {
		p := a[0].(*value)
		in.sch.yield("sync.Map.LoadOrStore")
		if in.race != nil {
			in.race.acquire(in.sch.cur, p)
		}
		m := in.syncMap(p)
		if i := in.syncMapFind(m, a[1]); i >= 0 {
			return tuple{m.vals[i], in.ctx.T}
		}
		store(in, p, a[1], a[2])
		return tuple{a[2], in.ctx.F}
	})
	e.reg("(*sync.Map).Delete", func(in *interp, fr *frame, a []value) value {
		p := a[0].(*value)
		in.sch.yield("sync.Map.Delete")
		m := in.syncMap(p)
		if i := in.syncMapFind(m, a[1]); i >= 0 {
			m.keys = append(m.keys[:i:i], m.keys[i+1:]...)
			m.vals = append(m.vals[:i:i], m.vals[i+1:]...)
		}
		in.sch.wepoch++
		return nil
	})
}

// sync.Pool: Put keeps the object, Get hands out the most recently put one (the pool may reuse an
// object at once — the case that matters for use-after-release), else calls New.
func registerSyncPool(e *Engine) {
	e.reg("(*sync.Pool).Get", func(in *interp, fr *frame, a []value) value {
		p := a[0].(*value)
		in.sch.yield("sync.Pool.Get")
		if in.syncPools == nil {
			in.syncPools = map[*value][]value{}
		}
		if l := in.syncPools[p]; len(l) > 0 {
			v := l[len(l)-1]
			in.syncPools[p] = l[:len(l)-1]
			if in.race != nil {
				in.race.acquire(in.sch.cur, p)
			}
			return v
		}
		st := (*p).(structure)
		if newFn := st[len(st)-1]; !in.isNil(newFn) {
			return in.call(fr, 0, newFn, nil)
		}
		return iface{}
	})
	e.reg("(*sync.Pool).Put", func(in *interp, fr *frame, a []value) value {
		p := a[0].(*value)
		in.sch.yield("sync.Pool.Put")
		if in.syncPools == nil {
			in.syncPools = map[*value][]value{}
		}
		if in.isNil(a[1]) {
			return nil
		}
		in.syncPools[p] = append(in.syncPools[p], a[1])
		if in.race != nil {
			in.race.release(in.sch.cur, p)
		}
		return nil
	})
}

func registerSync(e *Engine) {
	lock := func(in *interp, fr *frame, a []value) value {
		p := a[0].(*value)
		m := in.mstate(p)
		in.sch.yield("Lock")
		in.sch.block(func() bool { return !m.locked && m.readers == 0 }, "Mutex.Lock")
		m.locked = true
		m.owner = in.sch.cur.id
		if in.race != nil {
			in.race.acquire(in.sch.cur, p)
		}
		return nil
	}
	unlock := func(in *interp, fr *frame, a []value) value {
		p := a[0].(*value)
		m := in.mstate(p)
		in.sch.yield("Unlock")
		if !m.locked {
			panic(targetPanic{msg: "fatal error: sync: unlock of unlocked mutex"})
		}
		if in.race != nil {
			in.race.release(in.sch.cur, p)
		}
		m.locked = false
		in.sch.wepoch++
		return nil
	}
	e.reg("(*sync.Mutex).Lock", lock)
	e.reg("(*sync.Mutex).Unlock", unlock)
	e.reg("(*sync.Mutex).TryLock", func(in *interp, fr *frame, a []value) value {
		p := a[0].(*value)
		m := in.mstate(p)
		in.sch.yield("TryLock")
		if m.locked || m.readers > 0 {
			return in.ctx.F
		}
		m.locked = true
		if in.race != nil {
			in.race.acquire(in.sch.cur, p)
		}
		return in.ctx.T
	})
	e.reg("(*sync.RWMutex).Lock", lock)
	e.reg("(*sync.RWMutex).Unlock", unlock)
	e.reg("(*sync.RWMutex).RLock", func(in *interp, fr *frame, a []value) value {
		p := a[0].(*value)
		m := in.mstate(p)
		in.sch.yield("RLock")
		in.sch.block(func() bool { return !m.locked }, "RWMutex.RLock")
		m.readers++
		if in.race != nil {
			in.race.acquire(in.sch.cur, p)
		}
		return nil
	})
	e.reg("(*sync.RWMutex).RUnlock", func(in *interp, fr *frame, a []value) value {
		p := a[0].(*value)
		m := in.mstate(p)
		in.sch.yield("RUnlock")
		if m.readers <= 0 {
			panic(targetPanic{msg: "fatal error: sync: RUnlock of unlocked RWMutex"})
		}
		if in.race != nil {
			in.race.release(in.sch.cur, rkey{p})
			// writers must also wait for readers: model by releasing on the write key too
			in.race.release(in.sch.cur, p)
		}
		m.readers--
		in.sch.wepoch++
		return nil
	})
	e.reg("(*sync.WaitGroup).Add", func(in *interp, fr *frame, a []value) value {
		p := a[0].(*value)
		in.sch.yield("WaitGroup.Add")
		w := in.wg(p)
		w.n += asInt(a[1])
		if w.n < 0 {
			panic(targetPanic{msg: "sync: negative WaitGroup counter"})
		}
		if in.race != nil {
			in.race.release(in.sch.cur, p)
		}
		in.sch.wepoch++
		return nil
	})
	e.reg("(*sync.WaitGroup).Done", func(in *interp, fr *frame, a []value) value {
		p := a[0].(*value)
		in.sch.yield("WaitGroup.Done")
		w := in.wg(p)
		w.n--
		if w.n < 0 {
			panic(targetPanic{msg: "sync: negative WaitGroup counter"})
		}
		if in.race != nil {
			in.race.release(in.sch.cur, p)
		}
		in.sch.wepoch++
		return nil
	})
	e.reg("(*sync.WaitGroup).Wait", func(in *interp, fr *frame, a []value) value {
		p := a[0].(*value)
		in.sch.yield("WaitGroup.Wait")
		w := in.wg(p)
		in.sch.block(func() bool { return w.n == 0 }, "WaitGroup.Wait")
		if in.race != nil {
			in.race.acquire(in.sch.cur, p)
		}
		return nil
	})
	e.reg("(*sync.Once).Do", func(in *interp, fr *frame, a []value) value {
		p := a[0].(*value)
		in.sch.yield("Once.Do")
		m := in.mstate(p)
		if !m.locked {
			m.locked = true
			in.call(fr, 0, a[1], nil)
			if in.race != nil {
				in.race.release(in.sch.cur, p)
			}
		} else if in.race != nil {
			in.race.acquire(in.sch.cur, p)
		}
		return nil
	})

	// atomic integer functions
	for _, ty := range []string{"Int32", "Int64", "Uint32", "Uint64", "Uintptr"} {
		ty := ty
		e.reg("sync/atomic.Load"+ty, func(in *interp, fr *frame, a []value) value {
			p := a[0].(*value)
			in.sch.yieldRead("atomic.Load")
			in.atomicRead(p)
			return *p
		})
		e.reg("sync/atomic.Store"+ty, func(in *interp, fr *frame, a []value) value {
			p := a[0].(*value)
			in.sch.yield("atomic.Store")
			in.atomicWrite(p)
			*p = a[1]
			return nil
		})
		e.reg("sync/atomic.Add"+ty, func(in *interp, fr *frame, a []value) value {
			p := a[0].(*value)
			in.sch.yield("atomic.Add")
			in.atomicRead(p)
			in.atomicWrite(p)
			*p = in.ctx.Bin(sym.OpAdd, term(*p), term(a[1]))
			return *p
		})
		e.reg("sync/atomic.Swap"+ty, func(in *interp, fr *frame, a []value) value {
			p := a[0].(*value)
			in.sch.yield("atomic.Swap")
			in.atomicRead(p)
			in.atomicWrite(p)
			old := *p
			*p = a[1]
			return old
		})
		e.reg("sync/atomic.CompareAndSwap"+ty, func(in *interp, fr *frame, a []value) value {
			p := a[0].(*value)
			in.sch.yield("atomic.CAS")
			in.atomicRead(p)
			if in.r.branch(in.ctx.Eq(term(*p), term(a[1])), "atomic.CAS") {
				in.atomicWrite(p)
				*p = a[2]
				return in.ctx.T
			}
			return in.ctx.F
		})
	}
	e.reg("(*sync/atomic.Value).Load", func(in *interp, fr *frame, a []value) value {
		p := a[0].(*value)
		cell := &(*p).(structure)[0]
		in.sch.yieldRead("atomic.Value.Load")
		in.atomicRead(cell)
		return *cell
	})
	e.reg("(*sync/atomic.Value).Store", func(in *interp, fr *frame, a []value) value {
		p := a[0].(*value)
		cell := &(*p).(structure)[0]
		in.sch.yield("atomic.Value.Store")
		v := a[1].(iface)
		if v.t == nil {
			panic(targetPanic{msg: "sync/atomic: store of nil value into Value"})
		}
		if old := (*cell).(iface); old.t != nil && !types.Identical(old.t, v.t) {
			panic(targetPanic{msg: "sync/atomic: store of inconsistently typed value into Value"})
		}
		in.atomicWrite(cell)
		*cell = v
		return nil
	})
}

type rkey struct{ p *value }

func (in *interp) wg(p *value) *wgState {
	if in.wgs == nil {
		in.wgs = map[*value]*wgState{}
	}
	w := in.wgs[p]
	if w == nil {
		w = &wgState{}
		in.wgs[p] = w
	}
	return w
}

func (in *interp) atomicRead(p *value) {
	t := in.sch.cur
	if len(in.sch.threads) > 1 {
		t.reads = append(t.reads, p)
	}
	if in.race != nil {
		in.race.read(t, p, true)
		in.race.acquire(t, p)
	}
}

func (in *interp) atomicWrite(p *value) {
	s := in.sch
	s.wepoch++
	s.cur.writes++
	for _, t := range s.threads {
		if t.spinSet != nil && t.spinSet[p] {
			t.spinWake = true
		}
	}
	if in.race != nil {
		in.race.write(s.cur, p, true)
		in.race.release(s.cur, p)
	}
}

// ---------------- time, context, wait ----------------

type ctxObj struct {
	parent   *ctxObj
	done     *channel
	err      value // iface
	children []*ctxObj
	vals     map[interface{}]value
	key, val value
}

type nativeObj interface {
	callMethod(in *interp, fr *frame, name string, args []value) value
}

func (c *ctxObj) cancel(in *interp, err value) {
	if c.done.closed {
		return
	}
	c.err = err
	c.done.closed = true
	in.sch.wepoch++
	if in.race != nil {
		in.race.chanClose(in.sch.cur, c.done)
	}
	for _, ch := range c.children {
		ch.cancel(in, err)
	}
}

func (c *ctxObj) callMethod(in *interp, fr *frame, name string, args []value) value {
	switch name {
	case "Done":
		return c.done
	case "Err":
		if c.err != nil {
			return c.err
		}
		return iface{}
	case "Deadline":
		return tuple{in.zero(in.eng.timeType()), in.ctx.F}
	case "Value":
		for x := c; x != nil; x = x.parent {
			if x.key != nil {
				k1, k2 := x.key.(iface), args[0].(iface)
				if k1.t != nil && k2.t != nil && types.Identical(k1.t, k2.t) && types.Comparable(k1.t) {
					if in.r.branch(in.equals(k1.t, k1.v, k2.v), "ctx.Value") {
						return x.val
					}
				}
			}
		}
		return iface{}
	}
	panic(pathEnd{kind: "error", msg: "context method " + name})
}

func (in *interp) newCtx(parent *ctxObj) (iface, *ctxObj) {
	c := &ctxObj{parent: parent, done: &channel{site: "ctx.Done"}}
	if parent != nil {
		parent.children = append(parent.children, c)
		if parent.done.closed {
			c.done.closed = true
			c.err = parent.err
			c.done.vcClose = parent.done.vcClose
		}
	}
	return iface{t: in.eng.opaqueType("context"), v: c}, c
}

func (in *interp) sentinel(pkg, name string) value {
	for _, p := range in.prog.AllPackages() {
		if p.Pkg.Path() == pkg {
			if g, ok := p.Members[name].(*ssa.Global); ok {
				return *in.global(g)
			}
		}
	}
	return in.newErr(pkg+"."+name, nil)
}

func (e *Engine) timeType() types.Type {
	for _, p := range e.Prog.AllPackages() {
		if p.Pkg.Path() == "time" {
			return p.Type("Time").Type()
		}
	}
	panic("no time package")
}

func (in *interp) advanceClock() *sym.Term {
	c := in.ctx
	nv := c.Var("clock", 64)
	if in.clock != nil {
		in.r.assertPC(c.Cmp(sym.OpSLe, in.clock, nv))
	} else {
		in.r.assertPC(c.Cmp(sym.OpSLe, c.Const(64, 0), nv))
	}
	// keep instants far from overflow so that differences are exact
	in.r.assertPC(c.Cmp(sym.OpSLt, nv, c.Const(64, 1<<62)))
	in.clock = nv
	return nv
}

func (in *interp) now() value {
	t := in.zero(in.eng.timeType()).(structure)
	if in.clock == nil || in.freeClock {
		in.advanceClock()
	}
	t[1] = in.clock
	return t
}

func registerEnv(e *Engine) {
	registerProm(e)
	registerJSON(e)
	registerElection(e)
	registerSkiplist(e)
	registerBadger(e)
	registerTiKV(e)
	registerHTTP(e)
	e.reg("time.Now", func(in *interp, fr *frame, a []value) value { return in.now() })
	e.reg("time.Since", func(in *interp, fr *frame, a []value) value {
		n := in.now().(structure)
		return in.ctx.Bin(sym.OpSub, term(n[1]), term(a[0].(structure)[1]))
	})
	e.reg("(time.Time).Sub", func(in *interp, fr *frame, a []value) value {
		return in.ctx.Bin(sym.OpSub, term(a[0].(structure)[1]), term(a[1].(structure)[1]))
	})
	e.reg("(time.Time).Add", func(in *interp, fr *frame, a []value) value {
		t := append(structure{}, a[0].(structure)...)
		t[1] = in.ctx.Bin(sym.OpAdd, term(t[1]), term(a[1]))
		return t
	})
	e.reg("(time.Time).Before", func(in *interp, fr *frame, a []value) value {
		return in.ctx.Cmp(sym.OpSLt, term(a[0].(structure)[1]), term(a[1].(structure)[1]))
	})
	e.reg("(time.Time).After", func(in *interp, fr *frame, a []value) value {
		return in.ctx.Cmp(sym.OpSLt, term(a[1].(structure)[1]), term(a[0].(structure)[1]))
	})
	e.reg("(time.Time).UnixNano", func(in *interp, fr *frame, a []value) value { return a[0].(structure)[1] })
	e.reg("(time.Time).Unix", func(in *interp, fr *frame, a []value) value {
		return in.ctx.Bin(sym.OpSDiv, term(a[0].(structure)[1]), in.ctx.Const(64, 1e9))
	})
	e.reg("(time.Time).IsZero", func(in *interp, fr *frame, a []value) value {
		return in.ctx.Eq(term(a[0].(structure)[1]), in.ctx.Const(64, 0))
	})
	e.reg("(time.Time).String", func(in *interp, fr *frame, a []value) value { return "<time>" })
	e.reg("(time.Duration).Milliseconds", func(in *interp, fr *frame, a []value) value {
		return in.ctx.Bin(sym.OpSDiv, term(a[0]), in.ctx.Const(64, 1e6))
	})
	e.reg("(time.Duration).Microseconds", func(in *interp, fr *frame, a []value) value {
		return in.ctx.Bin(sym.OpSDiv, term(a[0]), in.ctx.Const(64, 1e3))
	})
	e.reg("(time.Duration).Nanoseconds", func(in *interp, fr *frame, a []value) value { return a[0] })
	e.reg("(time.Duration).Minutes", func(in *interp, fr *frame, a []value) value { return float64(0) })
	e.reg("(time.Duration).Hours", func(in *interp, fr *frame, a []value) value { return float64(0) })
	e.reg("(time.Duration).Seconds", func(in *interp, fr *frame, a []value) value { return float64(0) })
	e.reg("(time.Duration).String", func(in *interp, fr *frame, a []value) value { return "<duration>" })
	e.reg("time.Sleep", func(in *interp, fr *frame, a []value) value { in.sch.yield("Sleep"); return nil })
	// tickers and timers never fire on their own
	e.reg("time.NewTicker", func(in *interp, fr *frame, a []value) value {
		tk := in.zero(in.eng.namedType("time", "Ticker")).(structure)
		ch := &channel{capacity: 1, site: "time.Ticker"}
		in.tickers = append(in.tickers, ch)
		tk[0] = ch
		var v value = tk
		return &v
	})
	e.reg("(*time.Ticker).Stop", func(in *interp, fr *frame, a []value) value { return nil })
	e.reg("(*time.Ticker).Reset", func(in *interp, fr *frame, a []value) value { return nil })
	e.reg("time.NewTimer", func(in *interp, fr *frame, a []value) value {
		tk := in.zero(in.eng.namedType("time", "Timer")).(structure)
		tk[0] = &channel{capacity: 1, site: "time.Timer"}
		var v value = tk
		return &v
	})
	e.reg("(*time.Timer).Stop", func(in *interp, fr *frame, a []value) value { return in.ctx.T })
	e.reg("(*time.Timer).Reset", func(in *interp, fr *frame, a []value) value { return in.ctx.T })
	e.reg("time.After", func(in *interp, fr *frame, a []value) value { return &channel{capacity: 1, site: "time.After"} })
	e.reg("time.AfterFunc", func(in *interp, fr *frame, a []value) value {
		in.afterFuncs = append(in.afterFuncs, a[1])
		tk := in.zero(in.eng.namedType("time", "Timer")).(structure)
		var v value = tk
		return &v
	})

	e.reg("context.Background", func(in *interp, fr *frame, a []value) value { i, _ := in.newCtx(nil); return i })
	e.reg("context.TODO", func(in *interp, fr *frame, a []value) value { i, _ := in.newCtx(nil); return i })
	withCancel := func(in *interp, fr *frame, a []value) value {
		var parent *ctxObj
		if p, ok := a[0].(iface).v.(*ctxObj); ok {
			parent = p
		} else if a[0].(iface).t != nil {
			panic(pathEnd{kind: "error", msg: "context.WithCancel on a non-engine context"})
		}
		i, c := in.newCtx(parent)
		cancel := &nativeFn{name: "cancel", f: func(in *interp, caller *frame, args []value) value {
			in.sch.yield("cancel")
			c.cancel(in, in.sentinel("context", "Canceled"))
			return nil
		}}
		return tuple{i, cancel}
	}
	// a context with a deadline: the deadline never passes by itself (the ghost clock only moves when
	// the harness says so); zzverif.ExpireDeadlines lets the deadline of every live one pass
	withDeadline := func(in *interp, fr *frame, a []value) value {
		r := withCancel(in, fr, a).(tuple)
		if c, ok := r[0].(iface).v.(*ctxObj); ok {
			in.timedCtxs = append(in.timedCtxs, c)
		}
		return r
	}
	e.reg("context.WithCancel", withCancel)
	e.reg("context.WithTimeout", withDeadline)
	e.reg("context.WithDeadline", withDeadline)
	e.reg("context.WithValue", func(in *interp, fr *frame, a []value) value {
		parent, _ := a[0].(iface).v.(*ctxObj)
		i, c := in.newCtx(parent)
		c.key, c.val = a[1], a[2]
		return i
	})

	e.reg("k8s.io/apimachinery/pkg/util/wait.ExponentialBackoff", func(in *interp, fr *frame, a []value) value {
		bo := a[0].(structure)
		steps := int(asInt(bo[3]))
		for i := 0; i < steps; i++ {
			r := in.call(fr, 0, a[1], nil).(tuple)
			if !in.isNil(r[1]) {
				return r[1]
			}
			if in.r.branch(term(r[0]), "backoff-done") {
				return iface{}
			}
		}
		return in.sentinel("k8s.io/apimachinery/pkg/util/wait", "ErrWaitTimeout")
	})
	e.reg("google.golang.org/grpc/status.Errorf", func(in *interp, fr *frame, a []value) value {
		er := in.newErr("grpc-status", nil)
		er.v.(*opaque).data = map[string]value{"code": a[0]}
		return er
	})
	e.reg("google.golang.org/grpc/status.Error", func(in *interp, fr *frame, a []value) value {
		er := in.newErr("grpc-status", nil)
		er.v.(*opaque).data = map[string]value{"code": a[0]}
		return er
	})
	e.reg("runtime.Gosched", func(in *interp, fr *frame, a []value) value { in.sch.yield("Gosched"); return nil })
	e.reg("runtime.GC", func(in *interp, fr *frame, a []value) value { return nil })
	_ = fmt.Sprint
}

func (e *Engine) namedType(pkg, name string) types.Type {
	for _, p := range e.Prog.AllPackages() {
		if p.Pkg.Path() == pkg {
			return p.Type(name).Type()
		}
	}
	panic("no type " + pkg + "." + name)
}

// ---------------- prometheus model (client_golang v1.12.1 contract) ----------------
//
// NewCounterVec/NewGaugeVec/NewHistogramVec remember name and label names; With(labels) panics
// when the label-name set differs from the vec's or a label value is not valid UTF-8;
// MustRegister panics on a duplicate fully-qualified name or an invalid metric / label name.

type promVec struct {
	kind  string
	name  string
	names []string
}

type promMetric struct{}

func (promMetric) callMethod(in *interp, fr *frame, name string, args []value) value { return nil }

const promPkg = "github.com/prometheus/client_golang/prometheus"

func validMetricName(s string) bool {
	if s == "" {
		return false
	}
	for i, c := range s {
		if !(c == '_' || c == ':' || (c >= 'a' && c <= 'z') || (c >= 'A' && c <= 'Z') || (i > 0 && c >= '0' && c <= '9')) {
			return false
		}
	}
	return true
}

func validLabelName(s string) bool {
	if s == "" || strings.HasPrefix(s, "__") {
		return false
	}
	for i, c := range s {
		if !(c == '_' || (c >= 'a' && c <= 'z') || (c >= 'A' && c <= 'Z') || (i > 0 && c >= '0' && c <= '9')) {
			return false
		}
	}
	return true
}

func registerProm(e *Engine) {
	mk := func(kind string) func(in *interp, fr *frame, a []value) value {
		return func(in *interp, fr *frame, a []value) value {
			opts := a[0].(structure)
			pv := &promVec{kind: kind, name: in.cstr(opts[2])}
			names, _ := a[1].([]value)
			for _, n := range names {
				pv.names = append(pv.names, in.cstr(n))
			}
			var v value = pv
			return &v
		}
	}
	e.reg(promPkg+".NewCounterVec", mk("counter"))
	e.reg(promPkg+".NewGaugeVec", mk("gauge"))
	e.reg(promPkg+".NewHistogramVec", mk("histogram"))
	with := func(in *interp, fr *frame, a []value) value {
		pv := (*a[0].(*value)).(*promVec)
		m, _ := a[1].(*omap)
		n := 0
		if m != nil {
			n = len(m.keys)
		}
		if n != len(pv.names) {
			panic(targetPanic{msg: fmt.Sprintf("prometheus: inconsistent label cardinality for %s %q: expected %d label values but got %d", pv.kind, pv.name, len(pv.names), n)})
		}
		for _, want := range pv.names {
			found := false
			for i, k := range m.keys {
				if in.cstr(k) == want {
					found = true
					// label values must be valid UTF-8
					var ok *sym.Term
					switch s := m.vals[i].(type) {
					case string:
						ok = in.ctx.Bool(validUTF8(s))
					default:
						ok = in.utf8Valid(in.strBytes(s))
					}
					if !in.r.branch(ok, "label-utf8") {
						panic(targetPanic{msg: fmt.Sprintf("prometheus: label %s: value is not valid UTF-8 (metric %q)", want, pv.name)})
					}
				}
			}
			if !found {
				panic(targetPanic{msg: fmt.Sprintf("prometheus: label name %q missing in label map (metric %q)", want, pv.name)})
			}
		}
		return iface{t: in.eng.opaqueType("prometheus.Metric"), v: promMetric{}}
	}
	e.reg("(*"+promPkg+".CounterVec).With", with)
	e.reg("(*"+promPkg+".GaugeVec).With", with)
	e.reg("(*"+promPkg+".HistogramVec).With", with)
}

// promRegister implements Registerer.MustRegister on the default registerer.
func (in *interp) promRegister(args []value) {
	cs, _ := args[0].([]value)
	for _, c := range cs {
		ci, ok := c.(iface)
		if !ok {
			continue
		}
		p, ok := ci.v.(*value)
		if !ok || p == nil {
			continue
		}
		pv, ok := (*p).(*promVec)
		if !ok {
			continue
		}
		if in.promNames == nil {
			in.promNames = map[string]string{}
		}
		if !validMetricName(pv.name) {
			panic(targetPanic{msg: fmt.Sprintf("prometheus: %q is not a valid metric name", pv.name)})
		}
		seen := map[string]bool{}
		for _, n := range pv.names {
			if !validLabelName(n) || seen[n] {
				panic(targetPanic{msg: fmt.Sprintf("prometheus: %q is not a valid (or is a duplicate) label name (metric %q)", n, pv.name)})
			}
			seen[n] = true
		}
		if k, dup := in.promNames[pv.name]; dup {
			panic(targetPanic{msg: fmt.Sprintf("prometheus: duplicate metrics collector registration attempted: %q (%s, already a %s)", pv.name, pv.kind, k)})
		}
		in.promNames[pv.name] = pv.kind
	}
}

// ---------------- piece strings: fmt.Sprintf with symbolic %d operands ----------------

// fmtstr is a string made of literal pieces and decimal renderings of integer terms. It is
// understood only by strings.Split (separator inside literal pieces), strconv.ParseUint and
// string concatenation-free uses; anything else aborts the run.
type fmtstr struct {
	lit  []string    // len(lit) == len(num)+1
	num  []*sym.Term // decimal pieces between the literals
	sign []bool
}

func (in *interp) splitFmt(f *fmtstr, sep string) []value {
	var out []value
	cur := &fmtstr{lit: []string{""}}
	flush := func() {
		if len(cur.num) == 0 {
			out = append(out, cur.lit[0])
		} else {
			out = append(out, cur)
		}
		cur = &fmtstr{lit: []string{""}}
	}
	for i, l := range f.lit {
		parts := strings.Split(l, sep)
		for j, p := range parts {
			if j > 0 {
				flush()
			}
			cur.lit[len(cur.lit)-1] += p
		}
		if i < len(f.num) {
			cur.num = append(cur.num, f.num[i])
			cur.lit = append(cur.lit, "")
		}
	}
	flush()
	return out
}

// ---------------- encoding/json model: fixed-layout injective encoding ----------------

func (in *interp) encodeJSON(t types.Type, v value, out *[]*sym.Term) {
	c := in.ctx
	put64 := func(x *sym.Term) {
		x = c.Resize(x, 64, false)
		for i := 7; i >= 0; i-- {
			*out = append(*out, c.Extract(x, i*8+7, i*8))
		}
	}
	if t.String() == "time.Time" {
		put64(v.(structure)[1].(*sym.Term))
		return
	}
	switch u := t.Underlying().(type) {
	case *types.Basic:
		switch {
		case u.Info()&types.IsString != 0:
			b := in.strBytes(v)
			put64(c.Const(64, uint64(len(b))))
			*out = append(*out, b...)
		case u.Info()&types.IsBoolean != 0:
			*out = append(*out, c.Ite(v.(*sym.Term), c.Const(8, 1), c.Const(8, 0)))
		case u.Info()&types.IsInteger != 0:
			_, signed, _ := intInfo(u)
			put64(c.Resize(v.(*sym.Term), 64, signed))
		default:
			panic(pathEnd{kind: "error", msg: "json model: unsupported basic type " + t.String()})
		}
	case *types.Struct:
		s := v.(structure)
		for i := 0; i < u.NumFields(); i++ {
			in.encodeJSON(u.Field(i).Type(), s[i], out)
		}
	case *types.Pointer:
		p := v.(*value)
		if p == nil {
			*out = append(*out, c.Const(8, 0))
			return
		}
		*out = append(*out, c.Const(8, 1))
		in.encodeJSON(u.Elem(), *p, out)
	default:
		panic(pathEnd{kind: "error", msg: "json model: unsupported type " + t.String()})
	}
}

func (in *interp) decodeJSON(t types.Type, data []*sym.Term, pos *int) (value, bool) {
	c := in.ctx
	get64 := func() (*sym.Term, bool) {
		if *pos+8 > len(data) {
			return nil, false
		}
		x := data[*pos]
		for i := 1; i < 8; i++ {
			x = c.Concat(x, data[*pos+i])
		}
		*pos += 8
		return x, true
	}
	if t.String() == "time.Time" {
		x, ok := get64()
		if !ok {
			return nil, false
		}
		s := in.zero(t).(structure)
		s[1] = x
		return s, true
	}
	switch u := t.Underlying().(type) {
	case *types.Basic:
		switch {
		case u.Info()&types.IsString != 0:
			n, ok := get64()
			if !ok || !n.IsConst() || *pos+int(n.K) > len(data) {
				return nil, false
			}
			b := data[*pos : *pos+int(n.K)]
			*pos += int(n.K)
			return mkStr(b), true
		case u.Info()&types.IsBoolean != 0:
			if *pos >= len(data) {
				return nil, false
			}
			x := data[*pos]
			*pos++
			return c.Eq(x, c.Const(8, 1)), true
		case u.Info()&types.IsInteger != 0:
			x, ok := get64()
			if !ok {
				return nil, false
			}
			w, _, _ := intInfo(u)
			return c.Resize(x, w, false), true
		}
	case *types.Struct:
		s := make(structure, u.NumFields())
		for i := 0; i < u.NumFields(); i++ {
			f, ok := in.decodeJSON(u.Field(i).Type(), data, pos)
			if !ok {
				return nil, false
			}
			s[i] = f
		}
		return s, true
	case *types.Pointer:
		if *pos >= len(data) {
			return nil, false
		}
		tag := data[*pos]
		*pos++
		if tag.IsConst() && tag.K == 0 {
			return (*value)(nil), true
		}
		e, ok := in.decodeJSON(u.Elem(), data, pos)
		if !ok {
			return nil, false
		}
		return &e, true
	}
	return nil, false
}

func registerJSON(e *Engine) {
	e.reg("encoding/json.Marshal", func(in *interp, fr *frame, a []value) value {
		v := a[0].(iface)
		var out []*sym.Term
		// Marshal(&x) and Marshal(x) give the same document
		for {
			pt, ok := v.t.Underlying().(*types.Pointer)
			p, isPtr := v.v.(*value)
			if !ok || !isPtr || p == nil {
				break
			}
			v = iface{t: pt.Elem(), v: *p}
		}
		in.encodeJSON(v.t, v.v, &out)
		return tuple{termsToSlice(out), iface{}}
	})
	e.reg("encoding/json.Unmarshal", func(in *interp, fr *frame, a []value) value {
		data, _ := a[0].([]value)
		tgt := a[1].(iface)
		pt, ok := tgt.t.Underlying().(*types.Pointer)
		if !ok {
			return in.newErr("json: Unmarshal(non-pointer)", nil)
		}
		pos := 0
		v, ok := in.decodeJSON(pt.Elem(), in.sliceBytes(data), &pos)
		if !ok || pos != len(data) {
			return in.newErr("json: cannot unmarshal", nil)
		}
		store(pt.Elem(), tgt.v.(*value), v)
		return iface{}
	})
	e.reg("k8s.io/apimachinery/pkg/api/errors.NewNotFound", func(in *interp, fr *frame, a []value) value {
		// *StatusError; only its identity as "some non-nil error" matters to the code under check
		return &opaque{name: "apierrors.NotFound"}
	})
}

// ---------------- client-go leader election: one acquire attempt ----------------

func (in *interp) invoke(fr *frame, recv iface, name string, args ...value) value {
	if recv.t == nil {
		panic(rtPanic("method %s invoked on nil interface", name))
	}
	ms := in.prog.MethodSets.MethodSet(recv.t)
	for i := 0; i < ms.Len(); i++ {
		if ms.At(i).Obj().Name() == name {
			fn := in.prog.MethodValue(ms.At(i))
			return in.call(fr, 0, fn, append([]value{recv.v}, args...))
		}
	}
	panic(pathEnd{kind: "error", msg: "invoke: no method " + name})
}

func registerElection(e *Engine) {
	const lePkg = "k8s.io/client-go/tools/leaderelection"
	recT := func(in *interp) types.Type {
		return in.eng.namedType("k8s.io/client-go/tools/leaderelection/resourcelock", "LeaderElectionRecord")
	}
	// one acquire pass of the elector (tryAcquireOrRenew without the lease clock: the harness lets
	// the old lease run out, and natively delays the elector so that the callback runs before the
	// first renewal): Get; the record found becomes the *observed* record (from then on
	// IsLeader() compares its holder with the lock's identity); Create if the record is missing,
	// else Update; on success the written record is the observed one and OnStartedLeading(ctx) is
	// called, followed by the renew loop's immediate first pass (Get + Update). The steps are visible
	// operations; later renewals are not modelled.
	pass := func(in *interp, fr *frame, lec structure, observe func(rec value)) {
		lock := lec[0].(iface)
		cb := lec[4].(structure)
		rec := in.zero(recT(in)).(structure)
		rec[0] = in.invoke(fr, lock, "Identity")
		rec[1] = in.mkInt(8)
		got := in.invoke(fr, lock, "Get").(tuple)
		var err value
		if in.isNil(got[1]) {
			if observe != nil {
				if p, ok := got[0].(*value); ok && p != nil {
					observe(copyVal(*p))
				}
			}
			in.sch.yield("elector:observed")
			err = in.invoke(fr, lock, "Update", rec)
		} else {
			in.sch.yield("elector:absent")
			err = in.invoke(fr, lock, "Create", rec)
		}
		if in.isNil(err) {
			if observe != nil {
				observe(copyVal(rec))
			}
			in.sch.yield("elector:acquired")
			ctxv, _ := in.newCtx(nil)
			if in.sch.explore {
				// client-go starts the callback in a goroutine of its own and goes on to the first
				// renewal at once: under schedule exploration the two interleave
				in.spawnNamed("", "elector:OnStartedLeading", cb[0], []value{ctxv})
			} else {
				in.call(fr, 0, cb[0], []value{ctxv})
			}
			// the renew loop starts with an immediate pass (wait.PollImmediateUntil): one more Get
			// and Update by the new leader right after it has acquired the lock
			in.sch.yield("elector:renew")
			if again := in.invoke(fr, lock, "Get").(tuple); in.isNil(again[1]) {
				in.invoke(fr, lock, "Update", rec)
			}
		}
	}
	e.reg(lePkg+".RunOrDie", func(in *interp, fr *frame, a []value) value {
		pass(in, fr, a[1].(structure), nil)
		return nil
	})
	// the same pass through an elector object (NewLeaderElector / Run / IsLeader / GetLeader)
	leT := e.namedTypeOrNil(lePkg, "LeaderElector")
	if leT == nil {
		return
	}
	e.reg(lePkg+".NewLeaderElector", func(in *interp, fr *frame, a []value) value {
		le := in.zero(leT).(structure)
		le[fieldIndex(leT, "config")] = copyVal(a[0])
		var v value = le
		return tuple{&v, iface{}}
	})
	leOf := func(v value) structure { return (*v.(*value)).(structure) }
	e.reg("(*"+lePkg+".LeaderElector).Run", func(in *interp, fr *frame, a []value) value {
		p := a[0].(*value)
		lec := leOf(a[0])[fieldIndex(leT, "config")].(structure)
		pass(in, fr, lec, func(rec value) {
			le := (*p).(structure)
			le[fieldIndex(leT, "observedRecord")] = rec
			in.sch.wepoch++
		})
		return nil
	})
	holder := func(in *interp, le structure) value {
		return le[fieldIndex(leT, "observedRecord")].(structure)[0]
	}
	e.reg("(*"+lePkg+".LeaderElector).IsLeader", func(in *interp, fr *frame, a []value) value {
		le := leOf(a[0])
		lock := le[fieldIndex(leT, "config")].(structure)[0].(iface)
		in.sch.yieldRead("elector:IsLeader")
		return in.equals(types.Typ[types.String], holder(in, le), in.invoke(fr, lock, "Identity"))
	})
	e.reg("(*"+lePkg+".LeaderElector).GetLeader", func(in *interp, fr *frame, a []value) value {
		return holder(in, leOf(a[0]))
	})
}

// ---------------- github.com/huandu/skiplist model (memkv's engine) ----------------
//
// A SkipList is a sorted sequence of real *skiplist.Element objects (the adapter reads
// elem.Value directly). Keys are byte slices; comparisons go through the solver.

const sklPkg = "github.com/huandu/skiplist"

type sklModel struct {
	elems []*value // pointers to Element structures, sorted by key
}

func (in *interp) sklOf(p *value) *sklModel {
	if in.skls == nil {
		in.skls = map[*value]*sklModel{}
	}
	m := in.skls[p]
	if m == nil {
		m = &sklModel{}
		in.skls[p] = m
	}
	return m
}

func (in *interp) sklKey(e *value) []*sym.Term {
	k := (*e).(structure)[in.eng.sklKeyField].(iface)
	sl, _ := k.v.([]value)
	return in.sliceBytes(sl)
}

// sklFind returns the index of the first element with key >= k and whether it equals k.
func (in *interp) sklFind(m *sklModel, k []*sym.Term) (int, bool) {
	for i, e := range m.elems {
		ek := in.sklKey(e)
		if in.r.branch(in.bytesEq(ek, k), "skiplist-eq") {
			return i, true
		}
		if in.r.branch(in.bytesLt(k, ek), "skiplist-lt") {
			return i, false
		}
	}
	return len(m.elems), false
}

func registerSkiplist(e *Engine) {
	et := e.namedTypeOrNil(sklPkg, "Element")
	if et == nil {
		return
	}
	st := et.Underlying().(*types.Struct)
	for i := 0; i < st.NumFields(); i++ {
		switch st.Field(i).Name() {
		case "Value":
			e.sklValueField = i
		case "key":
			e.sklKeyField = i
		case "list":
			e.sklListField = i
		}
	}
	keyBytes := func(in *interp, v value) []*sym.Term {
		sl, _ := v.(iface).v.([]value)
		return in.sliceBytes(sl)
	}
	e.reg(sklPkg+".New", func(in *interp, fr *frame, a []value) value {
		var v value = in.zero(in.eng.namedType(sklPkg, "SkipList"))
		p := &v
		in.sklOf(p)
		return p
	})
	e.reg("(*"+sklPkg+".SkipList).Get", func(in *interp, fr *frame, a []value) value {
		p := a[0].(*value)
		in.onRead(p)
		m := in.sklOf(p)
		i, ok := in.sklFind(m, keyBytes(in, a[1]))
		if !ok {
			return (*value)(nil)
		}
		return m.elems[i]
	})
	e.reg("(*"+sklPkg+".SkipList).Set", func(in *interp, fr *frame, a []value) value {
		p := a[0].(*value)
		in.onWrite(p)
		m := in.sklOf(p)
		i, ok := in.sklFind(m, keyBytes(in, a[1]))
		if ok {
			(*m.elems[i]).(structure)[in.eng.sklValueField] = a[2]
			return m.elems[i]
		}
		var ev value = in.zero(in.eng.namedType(sklPkg, "Element"))
		el := &ev
		s := ev.(structure)
		s[in.eng.sklValueField] = a[2]
		s[in.eng.sklKeyField] = a[1]
		s[in.eng.sklListField] = p
		m.elems = append(m.elems, nil)
		copy(m.elems[i+1:], m.elems[i:])
		m.elems[i] = el
		return el
	})
	e.reg("(*"+sklPkg+".SkipList).Remove", func(in *interp, fr *frame, a []value) value {
		p := a[0].(*value)
		in.onWrite(p)
		m := in.sklOf(p)
		i, ok := in.sklFind(m, keyBytes(in, a[1]))
		if !ok {
			return (*value)(nil)
		}
		el := m.elems[i]
		m.elems = append(m.elems[:i:i], m.elems[i+1:]...)
		(*el).(structure)[in.eng.sklListField] = (*value)(nil)
		return el
	})
	e.reg("(*"+sklPkg+".SkipList).RemoveElement", func(in *interp, fr *frame, a []value) value {
		p := a[0].(*value)
		in.onWrite(p)
		m := in.sklOf(p)
		el := a[1].(*value)
		for i, x := range m.elems {
			if x == el {
				m.elems = append(m.elems[:i:i], m.elems[i+1:]...)
				(*el).(structure)[in.eng.sklListField] = (*value)(nil)
				break
			}
		}
		return nil
	})
	e.reg("(*"+sklPkg+".SkipList).Len", func(in *interp, fr *frame, a []value) value {
		return in.mkInt(len(in.sklOf(a[0].(*value)).elems))
	})
	e.reg("(*"+sklPkg+".SkipList).Front", func(in *interp, fr *frame, a []value) value {
		m := in.sklOf(a[0].(*value))
		if len(m.elems) == 0 {
			return (*value)(nil)
		}
		return m.elems[0]
	})
	step := func(d int) func(in *interp, fr *frame, a []value) value {
		return func(in *interp, fr *frame, a []value) value {
			el := a[0].(*value)
			lp, _ := (*el).(structure)[in.eng.sklListField].(*value)
			if lp == nil {
				return (*value)(nil)
			}
			in.onRead(lp)
			m := in.sklOf(lp)
			for i, x := range m.elems {
				if x == el {
					j := i + d
					if j < 0 || j >= len(m.elems) {
						return (*value)(nil)
					}
					return m.elems[j]
				}
			}
			return (*value)(nil)
		}
	}
	e.reg("(*"+sklPkg+".Element).Next", step(1))
	e.reg("(*"+sklPkg+".Element).Prev", step(-1))
	e.reg("(*"+sklPkg+".Element).Key", func(in *interp, fr *frame, a []value) value {
		return (*a[0].(*value)).(structure)[in.eng.sklKeyField]
	})
}

func (e *Engine) namedTypeOrNil(pkg, name string) types.Type {
	for _, p := range e.Prog.AllPackages() {
		if p.Pkg.Path() == pkg {
			if t := p.Type(name); t != nil {
				return t.Type()
			}
		}
	}
	return nil
}
