package exec

import (
	"fmt"
	"go/types"
	"strings"
	"sync"

	"golang.org/x/tools/go/ssa"

	"gosym/sym"
)

const (
	tRunnable = iota
	tBlocked
	tDone
)

type thread struct {
	id     int
	name   string
	resume chan struct{}
	state  int
	cond   func() bool
	what   string
	idle   bool
	// spin detection
	reads    []*value
	writes   uint64
	iterEp   uint64
	spinSet  map[*value]bool
	spinWake bool
	// race monitor
	vc vclock
	// go statement that created it
	site string
	// background threads are not part of schedule exploration: they run only when no
	// foreground thread can
	background bool
	label      string // name given by zzverif.Go (used to force schedules in native replays)
	goNamed    bool   // label given by zzverif.Go (a derived label is its spawner's label + "+")
	known      bool   // the native replay knows this thread's label: named by Go, or it has reached a gate
	afterGate  bool   // passed a single-point gate: its next visible operation is logged as "<label>:+"
}

type outcome struct {
	end  pathEnd
	viol *Violation
}

type sched struct {
	in          *interp
	threads     []*thread
	cur         *thread
	explore     bool
	bound       int // preemption bound (<0: unbounded)
	preemptions int
	wepoch      uint64
	done        chan outcome
	wg          sync.WaitGroup
	nsched      int
	held        bool // Hold(): new threads are registered but cannot run until Release
	schedLog    []string
	ungated     int // preemptions taken at operations that are not named gates
}

func newSched(in *interp) *sched {
	return &sched{in: in, done: make(chan outcome, 64), bound: -1}
}

func (s *sched) enabled(t *thread) bool {
	switch t.state {
	case tRunnable:
		return !(s.held && t.id != 0)
	case tBlocked:
		if s.held && t.id != 0 {
			return false
		}
		return t.cond != nil && t.cond()
	}
	return false
}

// pick chooses the next thread to run. from is the thread giving up (or offering) the baton.
func (s *sched) pick(from *thread, fromCanContinue bool) *thread {
	var en []*thread
	var idle *thread
	if fromCanContinue {
		en = append(en, from)
	}
	for _, t := range s.threads {
		if t == from && fromCanContinue {
			continue
		}
		if t.idle {
			idle = t
			continue
		}
		if s.enabled(t) {
			en = append(en, t)
		}
	}
	if len(en) == 0 {
		if idle != nil {
			return idle
		}
		return nil
	}
	if s.explore {
		// foreground threads first; background ones only when nothing else can run
		var fg []*thread
		for _, t := range en {
			if !t.background {
				fg = append(fg, t)
			}
		}
		if len(fg) > 0 {
			if fromCanContinue && from.background {
				fromCanContinue = false
			}
			en = fg
		} else {
			return en[0]
		}
	}
	if !s.explore || len(en) == 1 {
		return en[0]
	}
	// delay-bounded exploration: the default scheduler continues the current thread, or, when it
	// cannot continue, runs the enabled thread with the lowest id; every deviation from that
	// default (a preemption, or a non-default choice at a blocking point) costs one delay.
	if s.bound >= 0 && s.preemptions >= s.bound {
		return en[0]
	}
	s.nsched++
	i := s.in.r.choose(len(en), 's')
	if i != 0 {
		s.preemptions++
		if fromCanContinue && from.what != "YieldAt" && from.what != "Yield" && from.what != "Stamp" {
			// a preemption at a visible operation that is not a named gate (an atomic operation, a
			// lock, a channel operation inside the code under test): a native run cannot be forced
			// to switch threads there
			s.ungated++
		}
	}
	return en[i]
}

func (s *sched) handoff(from, to *thread) {
	if to == from {
		return
	}
	s.cur = to
	if s.in.race != nil {
		// no happens-before edge: the baton is an artefact of the executor
	}
	to.resume <- struct{}{}
	if from.state == tDone {
		return
	}
	<-from.resume
	if s.in.killed {
		panic(killedPanic{})
	}
}

// logAfter records that the thread goes on after a single-point gate (see YieldAt).
func (s *sched) logAfter(t *thread) {
	if t != nil && t.afterGate {
		t.afterGate = false
		name := t.label
		if name == "" {
			name = "?"
		}
		s.schedLog = append(s.schedLog, name+":+")
	}
}

// yield is called before every visible operation.
func (s *sched) yield(what string) {
	t := s.cur
	s.logAfter(t)
	t.writes++ // visible operations are never part of a pure spin iteration… except reads (see yieldRead)
	if !s.explore {
		return
	}
	t.what = what
	next := s.pick(t, true)
	s.handoff(t, next)
}

// yieldRead is yield for read-only visible operations (atomic loads, RLock-free reads).
func (s *sched) yieldRead(what string) {
	t := s.cur
	s.logAfter(t)
	if !s.explore {
		return
	}
	t.what = what
	next := s.pick(t, true)
	s.handoff(t, next)
}

// block suspends the current thread until cond holds.
func (s *sched) block(cond func() bool, what string) {
	t := s.cur
	s.logAfter(t)
	if cond() {
		return
	}
	t.state, t.cond, t.what = tBlocked, cond, what
	s.switchAway(t)
	t.state, t.cond = tRunnable, nil
}

func (s *sched) switchAway(t *thread) {
	next := s.pick(t, false)
	if next == nil {
		s.deadlock(t)
	}
	s.handoff(t, next)
}

func (s *sched) deadlock(t *thread) {
	msg := "all threads blocked:"
	for _, u := range s.threads {
		if u.state == tBlocked {
			msg += fmt.Sprintf(" [%d %s: %s]", u.id, u.name, u.what)
		}
	}
	s.finish(outcome{end: pathEnd{kind: "deadlock", msg: msg}})
	// park forever (until killed)
	<-t.resume
	panic(killedPanic{})
}

func (s *sched) finish(o outcome) {
	select {
	case s.done <- o:
	default:
	}
}

// waitIdle blocks the calling thread until every other thread is blocked, spinning or done.
func (s *sched) waitIdle() {
	t := s.cur
	t.idle = true
	t.state, t.what = tBlocked, "WaitIdle"
	t.cond = func() bool { return true }
	next := s.pick(t, false)
	if next != t {
		s.handoff(t, next)
	}
	t.idle = false
	t.state, t.cond = tRunnable, nil
}

func (in *interp) spawn(fr *frame, instr *ssa.Go, fn value, args []value) {
	in.spawnNamed("", in.siteOf(fr, instr.Pos()), fn, args)
}

func (in *interp) spawnNamed(name, site string, fn value, args []value) {
	s := in.sch
	s.yield("go")
	t := &thread{id: len(s.threads), resume: make(chan struct{}), site: site, label: name, goNamed: name != "", known: name != ""}
	if name == "" && s.cur != nil && s.cur.label != "" && s.cur.known {
		// natively a goroutine's spawner is read off its stack ("created by ... in goroutine N"):
		// goroutines started by a thread whose label is known carry that label plus "+"
		t.label = s.cur.label + "+"
	}
	switch f := fn.(type) {
	case *ssa.Function:
		t.name = f.String()
	case *closure:
		t.name = f.Fn.String()
	default:
		t.name = fmt.Sprintf("%T", fn)
	}
	s.threads = append(s.threads, t)
	if in.race != nil {
		in.race.onSpawn(s.cur, t)
	}
	s.wg.Add(1)
	go in.threadMain(t, fn, args)
}

func (in *interp) threadMain(t *thread, fn value, args []value) {
	s := in.sch
	defer s.wg.Done()
	<-t.resume
	if in.killed {
		return
	}
	defer func() {
		p := recover()
		switch p := p.(type) {
		case nil:
		case killedPanic:
			return
		case pathEnd:
			s.finish(outcome{end: p, viol: in.r.viol})
			return
		case targetPanic:
			v := &Violation{Kind: "panic", Label: "panic", Msg: p.String(), Stack: stackOf(in.curFr)}
			in.r.viol = v
			in.fillModel(v)
			s.finish(outcome{end: pathEnd{kind: "violation", msg: "panic: " + p.String()}, viol: v})
			return
		default:
			s.finish(outcome{end: pathEnd{kind: "error", msg: fmt.Sprintf("engine panic in thread %s: %v", t.name, p)}})
			return
		}
	}()
	if t.goNamed {
		s.schedLog = append(s.schedLog, t.label+":start")
	}
	in.callTop(t, fn, args)
	s.logAfter(t)
	t.state = tDone
	if t.id == 0 {
		s.finish(outcome{end: pathEnd{kind: "done"}})
		return
	}
	next := s.pick(t, false)
	if next == nil {
		s.finish(outcome{end: pathEnd{kind: "deadlock", msg: "thread exit leaves all threads blocked"}})
		return
	}
	s.handoff(t, next)
}

// callTop calls fn as the root of thread t.
func (in *interp) callTop(t *thread, fn value, args []value) {
	root := &frame{in: in, th: t, fn: in.eng.rootFn}
	in.call(root, 0, fn, args)
}

func (in *interp) fillModel(v *Violation) {
	defer func() { recover() }()
	defer in.r.w.solver.Send("(pop 1)\n")
	rs, err := in.r.w.solver.Check("(push 1)\n")
	if err == nil && rs == sym.Sat {
		v.Model = in.r.model()
	}
}

// ---- spin detection ----

func sameValue(a, b value) bool {
	switch a := a.(type) {
	case *sym.Term:
		bt, ok := b.(*sym.Term)
		return ok && a == bt
	case string:
		bs, ok := b.(string)
		return ok && a == bs
	case *value:
		bp, ok := b.(*value)
		return ok && a == bp
	case float64:
		bf, ok := b.(float64)
		return ok && a == bf
	case nil:
		return b == nil
	case []value:
		bs, ok := b.([]value)
		if !ok || len(a) != len(bs) {
			return false
		}
		return len(a) == 0 || &a[0] == &bs[0]
	case iface:
		bi, ok := b.(iface)
		if !ok {
			return false
		}
		if a.t == nil || bi.t == nil {
			return a.t == nil && bi.t == nil
		}
		return types.Identical(a.t, bi.t) && sameValue(a.v, bi.v)
	case *channel:
		bc, ok := b.(*channel)
		return ok && a == bc
	case *omap:
		bm, ok := b.(*omap)
		return ok && a == bm
	case *closure:
		bc, ok := b.(*closure)
		return ok && a == bc
	case *ssa.Function:
		bf, ok := b.(*ssa.Function)
		return ok && a == bf
	}
	return false
}

func (in *interp) spinCheck(fr *frame, phis []value) {
	t := fr.th
	if t == nil {
		return
	}
	s := in.sch
	if fr.spin == nil {
		fr.spin = map[*ssa.BasicBlock]*spinRec{}
	}
	rec := fr.spin[fr.block]
	same := rec != nil && rec.writes == t.writes && t.iterEp == s.wepoch && len(rec.phis) == len(phis)
	if same {
		for i := range phis {
			if !sameValue(rec.phis[i], phis[i]) {
				same = false
				break
			}
		}
	}
	if same && len(s.threads) > 1 {
		// fixed point: disable until a location read during the iteration is written
		t.spinSet = map[*value]bool{}
		for _, p := range t.reads {
			t.spinSet[p] = true
		}
		t.spinWake = false
		t.reads = t.reads[:0]
		s.block(func() bool { return t.spinWake }, "spinning in "+fr.fn.String())
		t.spinSet = nil
		fr.visits[fr.block] = 0
	}
	if rec == nil {
		rec = &spinRec{}
		fr.spin[fr.block] = rec
	}
	rec.phis = append(rec.phis[:0], phis...)
	rec.writes = t.writes
	t.iterEp = s.wepoch
	t.reads = t.reads[:0]
}

func (in *interp) onRead(p *value) {
	if in.sch == nil {
		return
	}
	t := in.sch.cur
	if t != nil && len(in.sch.threads) > 1 {
		t.reads = append(t.reads, p)
	}
	if in.race != nil {
		in.race.read(t, p, false)
	}
}

func (in *interp) onWrite(p *value) {
	s := in.sch
	if s == nil {
		return
	}
	s.wepoch++
	if s.cur != nil {
		s.cur.writes++
	}
	if len(s.threads) > 1 {
		for _, t := range s.threads {
			if t.spinSet != nil && t.spinSet[p] {
				t.spinWake = true
			}
		}
	}
	if in.race != nil {
		in.race.write(s.cur, p, false)
	}
}

// ---- channels ----

type pendingSend struct {
	v     value
	taken bool
	vc    vclock
}

type channel struct {
	pending     []*pendingSend // blocked senders of an unbuffered channel
	buf         []value
	capacity    int
	closed      bool
	recvWaiters int
	site        string
	vcSend      []vclock // per buffered element (race monitor)
	vcClose     vclock
}

func (in *interp) makeChan(n int, site string) *channel {
	for sub, c := range in.chanCaps {
		if strings.Contains(site, sub) {
			n = c
		}
	}
	return &channel{capacity: n, site: site}
}

func (in *interp) chanSend(ch *channel, v value) {
	s := in.sch
	s.yield("send " + chName(ch))
	if ch == nil {
		s.block(func() bool { return false }, "send on nil channel")
	}
	if ch.capacity == 0 {
		if ch.closed {
			panic(targetPanic{msg: "send on closed channel"})
		}
		p := &pendingSend{v: copyVal(v)}
		if in.race != nil {
			p.vc = s.cur.vc.copy()
			in.race.tick(s.cur)
		}
		ch.pending = append(ch.pending, p)
		s.wepoch++
		s.block(func() bool { return p.taken || ch.closed }, "send "+chName(ch))
		if !p.taken {
			panic(targetPanic{msg: "send on closed channel"})
		}
		return
	}
	s.block(func() bool { return ch.closed || len(ch.buf) < ch.capacity }, "send "+chName(ch))
	if ch.closed {
		panic(targetPanic{msg: "send on closed channel"})
	}
	ch.buf = append(ch.buf, copyVal(v))
	s.wepoch++
	if in.race != nil {
		in.race.chanSend(s.cur, ch)
	}
}

// takeFrom removes the next value from a channel that is ready for receiving.
func (in *interp) takeFrom(ch *channel) (v value, ok bool) {
	s := in.sch
	if len(ch.buf) > 0 {
		v = ch.buf[0]
		ch.buf = ch.buf[1:]
		if in.race != nil {
			in.race.chanRecv(s.cur, ch)
		}
		return v, true
	}
	if len(ch.pending) > 0 {
		p := ch.pending[0]
		ch.pending = ch.pending[1:]
		p.taken = true
		if in.race != nil {
			s.cur.vc.join(p.vc)
		}
		return p.v, true
	}
	if in.race != nil {
		in.race.chanRecvClosed(s.cur, ch)
	}
	return nil, false
}

func chanRecvReady(ch *channel) bool {
	return len(ch.buf) > 0 || len(ch.pending) > 0 || ch.closed
}

func chName(ch *channel) string {
	if ch == nil {
		return "chan<nil>"
	}
	return "chan@" + ch.site
}

func (in *interp) chanRecv(ch *channel, commaOk bool, elem types.Type) value {
	s := in.sch
	s.yield("recv " + chName(ch))
	if ch == nil {
		s.block(func() bool { return false }, "recv on nil channel")
	}
	ch.recvWaiters++
	s.block(func() bool { return chanRecvReady(ch) }, "recv "+chName(ch))
	ch.recvWaiters--
	v, ok := in.takeFrom(ch)
	if !ok {
		v = in.zero(elem)
	}
	s.wepoch++
	if commaOk {
		return tuple{v, in.ctx.Bool(ok)}
	}
	return v
}

func (in *interp) chanClose(ch *channel) {
	s := in.sch
	s.yield("close " + chName(ch))
	if ch == nil {
		panic(targetPanic{msg: "close of nil channel"})
	}
	if ch.closed {
		panic(targetPanic{msg: "close of closed channel"})
	}
	ch.closed = true
	s.wepoch++
	if in.race != nil {
		in.race.chanClose(s.cur, ch)
	}
}

func (in *interp) selectOp(fr *frame, instr *ssa.Select) value {
	s := in.sch
	s.yield("select")
	type st struct {
		ch   *channel
		send bool
		v    value
	}
	states := make([]st, len(instr.States))
	for i, state := range instr.States {
		ch, _ := fr.get(state.Chan).(*channel)
		states[i] = st{ch: ch, send: state.Dir == types.SendOnly}
		if state.Send != nil {
			states[i].v = fr.get(state.Send)
		}
	}
	ready := func() []int {
		var r []int
		for i, x := range states {
			if x.ch == nil {
				continue
			}
			if x.send {
				if x.ch.closed || (x.ch.capacity > 0 && len(x.ch.buf) < x.ch.capacity) ||
					(x.ch.capacity == 0 && x.ch.recvWaiters > 0 && len(x.ch.buf) == 0) {
					r = append(r, i)
				}
			} else if chanRecvReady(x.ch) {
				r = append(r, i)
			}
		}
		return r
	}
	rd := ready()
	if len(rd) == 0 && instr.Blocking {
		for _, x := range states {
			if !x.send && x.ch != nil {
				x.ch.recvWaiters++
			}
		}
		s.block(func() bool { return len(ready()) > 0 }, "select")
		for _, x := range states {
			if !x.send && x.ch != nil {
				x.ch.recvWaiters--
			}
		}
		rd = ready()
	}
	chosen := -1
	if len(rd) > 0 {
		k := 0
		if s.explore && len(rd) > 1 {
			k = in.r.choose(len(rd), 's')
		}
		chosen = rd[k]
	}
	recvOk := false
	var recvVal value
	if chosen >= 0 {
		x := states[chosen]
		if x.send {
			if x.ch.closed {
				panic(targetPanic{msg: "send on closed channel"})
			}
			x.ch.buf = append(x.ch.buf, copyVal(x.v))
			if in.race != nil {
				in.race.chanSend(s.cur, x.ch)
			}
		} else {
			recvVal, recvOk = in.takeFrom(x.ch)
		}
		s.wepoch++
	}
	r := tuple{in.ctx.Const(64, uint64(int64(chosen))), in.ctx.Bool(recvOk)}
	for i, stt := range instr.States {
		if stt.Dir == types.RecvOnly {
			var v value
			if i == chosen && recvOk {
				v = recvVal
			} else {
				v = in.zero(stt.Chan.Type().Underlying().(*types.Chan).Elem())
			}
			r = append(r, v)
		}
	}
	return r
}
