package exec

import (
	"fmt"
	"go/types"
	"sort"
	"strconv"
	"strings"

	"golang.org/x/tools/go/ssa"

	"gosym/sym"
)

const fmtMarker = "\x00symbolic-fmt\x00"

type observation struct {
	label string
	vals  []value
}

func (o observation) String() string {
	s := o.label + ":"
	for _, v := range o.vals {
		s += " " + toString(v)
	}
	return s
}

// EvalString renders the observation under a model (symbolic parts evaluated).
func (o observation) eval(m map[string]uint64) string {
	memo := map[*sym.Term]uint64{}
	var f func(v value) string
	f = func(v value) string {
		switch v := v.(type) {
		case *sym.Term:
			x := sym.Eval(v, m, memo)
			if v.W == 0 {
				return strconv.FormatBool(x == 1)
			}
			return strconv.FormatUint(x, 10)
		case string:
			return strconv.Quote(v)
		case *symstr:
			b := make([]byte, len(v.b))
			for i, t := range v.b {
				b[i] = byte(sym.Eval(t, m, memo))
			}
			return strconv.Quote(string(b))
		case []value:
			// byte slices print as quoted strings, others element-wise
			allBytes := len(v) > 0
			for _, e := range v {
				if t, ok := e.(*sym.Term); !ok || t.W != 8 {
					allBytes = false
				}
			}
			if allBytes {
				b := make([]byte, len(v))
				for i, e := range v {
					b[i] = byte(sym.Eval(e.(*sym.Term), m, memo))
				}
				return strconv.Quote(string(b))
			}
			var parts []string
			for _, e := range v {
				parts = append(parts, f(e))
			}
			return "[" + strings.Join(parts, " ") + "]"
		case iface:
			if v.t == nil {
				return "<nil>"
			}
			if sl, ok := v.v.([]value); ok && len(sl) == 0 {
				if st, ok := v.t.Underlying().(*types.Slice); ok {
					if b, ok := st.Elem().Underlying().(*types.Basic); ok && b.Kind() == types.Uint8 {
						return strconv.Quote("")
					}
				}
			}
			if t, ok := v.v.(*sym.Term); ok && t.W > 0 {
				if _, signed, ok := intInfo(v.t); ok && signed {
					x := sym.Eval(t, m, memo)
					sh := 64 - uint(t.W)
					return strconv.FormatInt(int64(x<<sh)>>sh, 10)
				}
			}
			return f(v.v)
		case float64:
			return fmt.Sprint(v)
		case nil:
			return "<nil>"
		case *opaque:
			if v == nil {
				return "<nil>"
			}
			return "opaque(" + v.name + ")"
		}
		return toString(v)
	}
	s := o.label + ":"
	for _, v := range o.vals {
		s += " " + f(v)
	}
	return s
}

func (in *interp) findings() []string {
	var out []string
	for k := range in.findingSet {
		out = append(out, k)
	}
	sort.Strings(out)
	return out
}

func term(v value) *sym.Term { return v.(*sym.Term) }

func (in *interp) str(v value) string {
	switch s := v.(type) {
	case string:
		return s
	case *symstr:
		panic(pathEnd{kind: "error", msg: "symbolic string where a concrete one is required"})
	}
	panic(fmt.Sprintf("str: %T", v))
}

func (in *interp) param(name string, def int) int {
	if v, ok := in.eng.cfg.Params[name]; ok {
		return v
	}
	return def
}

const zz = "github.com/kubewharf/kubebrain/pkg/zzverif."

// gateAt is a labelled scheduling point (zzverif.YieldAt and the points derived from it).
func (in *interp) gateAt(pt string) {
	in.sch.cur.known = true
	in.sch.yield("YieldAt")
	name := in.sch.cur.label
	if name == "" {
		if in.sch.cur.id == 0 {
			return // the harness's main thread is not gated
		}
		name = "?"
	}
	in.sch.schedLog = append(in.sch.schedLog, name+":"+pt)
	if strings.HasPrefix(pt, "m:") {
		in.sch.cur.afterGate = true
	}
}

func registerOverrides(e *Engine) {
	// ---------------- harness API ----------------
	e.reg(zz+"U64", func(in *interp, fr *frame, a []value) value { return in.ctx.Var(in.str(a[0]), 64) })
	e.reg(zz+"I64", func(in *interp, fr *frame, a []value) value { return in.ctx.Var(in.str(a[0]), 64) })
	e.reg(zz+"Int", func(in *interp, fr *frame, a []value) value { return in.ctx.Var(in.str(a[0]), 64) })
	e.reg(zz+"Byte", func(in *interp, fr *frame, a []value) value { return in.ctx.Var(in.str(a[0]), 8) })
	e.reg(zz+"Bool", func(in *interp, fr *frame, a []value) value { return in.ctx.Var(in.str(a[0]), 0) })
	e.reg(zz+"Bytes", func(in *interp, fr *frame, a []value) value {
		n := asInt(a[1])
		name := in.str(a[0])
		out := make([]value, n)
		for i := range out {
			out[i] = in.ctx.Var(name+"["+strconv.Itoa(i)+"]", 8)
		}
		return out
	})
	e.reg(zz+"Choose", func(in *interp, fr *frame, a []value) value {
		n := int(asInt(a[1]))
		k := in.r.choose(n, 'c')
		in.chooseLog = append(in.chooseLog, chooseRec{in.uniq("choose:" + in.str(a[0])), k})
		return in.mkInt(k)
	})
	e.reg(zz+"Param", func(in *interp, fr *frame, a []value) value {
		return in.mkInt(in.param(in.str(a[0]), int(asInt(a[1]))))
	})
	e.reg(zz+"Assume", func(in *interp, fr *frame, a []value) value { in.r.assume(term(a[0])); return nil })
	e.reg(zz+"Assert", func(in *interp, fr *frame, a []value) value {
		in.r.assert(term(a[0]), in.str(a[1]), fr.caller)
		return nil
	})
	e.reg(zz+"Fail", func(in *interp, fr *frame, a []value) value {
		in.r.fail("assert", in.str(a[0]), "", fr.caller)
		return nil
	})
	e.reg(zz+"Cover", func(in *interp, fr *frame, a []value) value { in.r.cover(in.str(a[0])); return nil })
	e.reg(zz+"And", func(in *interp, fr *frame, a []value) value { return in.ctx.And(term(a[0]), term(a[1])) })
	e.reg(zz+"Or", func(in *interp, fr *frame, a []value) value { return in.ctx.Or(term(a[0]), term(a[1])) })
	e.reg(zz+"Not", func(in *interp, fr *frame, a []value) value { return in.ctx.Not(term(a[0])) })
	e.reg(zz+"Implies", func(in *interp, fr *frame, a []value) value { return in.ctx.Implies(term(a[0]), term(a[1])) })
	e.reg(zz+"IteU64", func(in *interp, fr *frame, a []value) value { return in.ctx.Ite(term(a[0]), term(a[1]), term(a[2])) })
	e.reg(zz+"BytesEq", func(in *interp, fr *frame, a []value) value {
		x, _ := a[0].([]value)
		y, _ := a[1].([]value)
		return in.bytesEq(in.sliceBytes(x), in.sliceBytes(y))
	})
	e.reg(zz+"BytesLess", func(in *interp, fr *frame, a []value) value {
		x, _ := a[0].([]value)
		y, _ := a[1].([]value)
		return in.bytesLt(in.sliceBytes(x), in.sliceBytes(y))
	})
	e.reg(zz+"HasPrefix", func(in *interp, fr *frame, a []value) value {
		x, _ := a[0].([]value)
		y, _ := a[1].([]value)
		if len(y) > len(x) {
			return in.ctx.F
		}
		return in.bytesEq(in.sliceBytes(x[:len(y)]), in.sliceBytes(y))
	})
	e.reg(zz+"Concrete", func(in *interp, fr *frame, a []value) value {
		t := term(a[0])
		v, ok := in.concInt(t, 0, 1<<62, "Concrete")
		if !ok {
			panic(pathEnd{kind: "assume"})
		}
		return in.ctx.Const(64, uint64(v))
	})
	e.reg(zz+"IsSymbolic", func(in *interp, fr *frame, a []value) value { return in.ctx.T })
	e.reg(zz+"Observe", func(in *interp, fr *frame, a []value) value {
		vs, _ := a[1].([]value)
		cp := make([]value, len(vs))
		for i, v := range vs {
			if bs, ok := v.(iface); ok {
				if sl, ok := bs.v.([]value); ok {
					v = iface{t: bs.t, v: append([]value{}, sl...)}
				}
			}
			cp[i] = v
		}
		in.observes = append(in.observes, observation{in.str(a[0]), cp})
		return nil
	})
	e.reg(zz+"Finding", func(in *interp, fr *frame, a []value) value {
		// names a known-finding discriminator that holds on this path
		c := term(a[1])
		if in.r.branch(c, "finding") {
			if in.findingSet == nil {
				in.findingSet = map[string]bool{}
			}
			in.findingSet[in.str(a[0])] = true
			return in.ctx.T
		}
		return in.ctx.F
	})
	e.reg(zz+"WaitIdle", func(in *interp, fr *frame, a []value) value { in.sch.waitIdle(); return nil })
	e.reg(zz+"Yield", func(in *interp, fr *frame, a []value) value {
		in.sch.cur.known = true
		in.sch.yield("Yield")
		if t := in.sch.cur; t.label != "" {
			in.sch.schedLog = append(in.sch.schedLog, t.label)
		}
		return nil
	})
	e.reg(zz+"YieldAt", func(in *interp, fr *frame, a []value) value {
		in.gateAt(in.str(a[0]))
		return nil
	})
	e.reg(zz+"SetTiKVRegions", func(in *interp, fr *frame, a []value) value {
		in.tkSplits = nil
		for _, k := range a[0].([]value) {
			in.tkSplits = append(in.tkSplits, in.sliceBytes(k.([]value)))
		}
		return nil
	})
	e.reg(zz+"GateLogs", func(in *interp, fr *frame, a []value) value {
		in.logGates = append(in.logGates, in.str(a[0]))
		return nil
	})
	e.reg(zz+"Go", func(in *interp, fr *frame, a []value) value {
		in.spawnNamed(in.str(a[0]), "zzverif.Go", a[1], nil)
		return nil
	})
	e.reg(zz+"ExploreSchedules", func(in *interp, fr *frame, a []value) value {
		in.sch.explore = true
		in.sch.bound = int(asInt(a[0]))
		in.sch.preemptions = 0
		for _, t := range in.sch.threads {
			if t != in.sch.cur {
				t.background = true
			}
		}
		return nil
	})
	e.reg(zz+"Foreground", func(in *interp, fr *frame, a []value) value {
		// threads whose function name contains the substring take part in schedule exploration
		sub := in.str(a[0])
		for _, t := range in.sch.threads {
			if strings.Contains(t.name, sub) {
				t.background = false
			}
		}
		return nil
	})
	e.reg(zz+"FireTickers", func(in *interp, fr *frame, a []value) value {
		in.sch.yield("FireTickers")
		for _, ch := range in.tickers {
			if len(ch.buf) < ch.capacity && !ch.closed {
				ch.buf = append(ch.buf, in.now())
				in.sch.wepoch++
			}
		}
		return nil
	})
	e.reg(zz+"TempDir", func(in *interp, fr *frame, a []value) value { return "/nonexistent/verif-tmp" })
	e.reg(zz+"Cleanup", func(in *interp, fr *frame, a []value) value { return nil })
	e.reg(zz+"FireTimers", func(in *interp, fr *frame, a []value) value {
		// every pending time.AfterFunc callback runs now, each in its own (timer) goroutine
		fns := in.afterFuncs
		in.afterFuncs = nil
		for _, f := range fns {
			in.spawnNamed("", "time.AfterFunc", f, nil)
		}
		return nil
	})
	e.reg(zz+"StopExploring", func(in *interp, fr *frame, a []value) value {
		in.sch.explore = false
		for _, t := range in.sch.threads {
			t.background = false
		}
		return nil
	})
	e.reg(zz+"SetTiKVOracleFault", func(in *interp, fr *frame, a []value) value {
		in.tkOracleFault = int(asInt(a[0]))
		return nil
	})
	e.reg(zz+"ExpireDeadlines", func(in *interp, fr *frame, a []value) value {
		in.sch.yield("cancel")
		live := in.timedCtxs
		in.timedCtxs = nil
		for _, c := range live {
			c.cancel(in, in.sentinel("context", "DeadlineExceeded"))
		}
		return nil
	})
	e.reg(zz+"Hold", func(in *interp, fr *frame, a []value) value { in.sch.held = true; return nil })
	e.reg(zz+"Release", func(in *interp, fr *frame, a []value) value { in.sch.held = false; return nil })
	e.reg(zz+"Stamp", func(in *interp, fr *frame, a []value) value {
		in.sch.cur.known = true
		in.sch.yield("Stamp")
		if t := in.sch.cur; t.label != "" {
			in.sch.schedLog = append(in.sch.schedLog, t.label)
		}
		in.stamp++
		return in.mkInt(in.stamp)
	})
	e.reg(zz+"ChanCap", func(in *interp, fr *frame, a []value) value {
		in.chanCaps[in.str(a[0])] = int(asInt(a[1]))
		return nil
	})
	e.reg(zz+"Symbolic", func(in *interp, fr *frame, a []value) value { return in.ctx.T })
	e.reg(zz+"AdvanceClock", func(in *interp, fr *frame, a []value) value { in.advanceClock(); return nil })
	// SetClock pins the ghost clock to a concrete instant (nanoseconds): harnesses whose revision base
	// comes from a wall-clock engine need concrete revisions (the pending-event ring is indexed by them)
	e.reg(zz+"SetClock", func(in *interp, fr *frame, a []value) value {
		in.clock = in.ctx.Resize(term(a[0]), 64, false)
		return nil
	})
	e.reg(zz+"Threads", func(in *interp, fr *frame, a []value) value { return in.mkInt(len(in.sch.threads)) })
	e.reg(zz+"PanicMessage", func(in *interp, fr *frame, a []value) value {
		// renders a recovered panic value
		return fmt.Sprint(toString(a[0]))
	})

	// ---------------- bytes / strings ----------------
	e.reg("bytes.Compare", func(in *interp, fr *frame, a []value) value {
		x, _ := a[0].([]value)
		y, _ := a[1].([]value)
		return in.bytesCmp(in.sliceBytes(x), in.sliceBytes(y))
	})
	e.reg("bytes.Equal", func(in *interp, fr *frame, a []value) value {
		x, _ := a[0].([]value)
		y, _ := a[1].([]value)
		return in.bytesEq(in.sliceBytes(x), in.sliceBytes(y))
	})
	e.reg("bytes.Index", func(in *interp, fr *frame, a []value) value {
		x, _ := a[0].([]value)
		y, _ := a[1].([]value)
		return in.indexOf(in.sliceBytes(x), in.sliceBytes(y))
	})
	e.reg("bytes.IndexByte", func(in *interp, fr *frame, a []value) value {
		x, _ := a[0].([]value)
		return in.indexOf(in.sliceBytes(x), []*sym.Term{term(a[1])})
	})
	e.reg("strings.Index", func(in *interp, fr *frame, a []value) value {
		return in.indexOf(in.strBytes(a[0]), in.strBytes(a[1]))
	})
	e.reg("internal/stringslite.Index", func(in *interp, fr *frame, a []value) value {
		return in.indexOf(in.strBytes(a[0]), in.strBytes(a[1]))
	})
	e.reg("internal/stringslite.IndexByte", func(in *interp, fr *frame, a []value) value {
		return in.indexOf(in.strBytes(a[0]), []*sym.Term{term(a[1])})
	})
	e.reg("strings.IndexByte", func(in *interp, fr *frame, a []value) value {
		return in.indexOf(in.strBytes(a[0]), []*sym.Term{term(a[1])})
	})
	e.reg("strings.Compare", func(in *interp, fr *frame, a []value) value {
		return in.bytesCmp(in.strBytes(a[0]), in.strBytes(a[1]))
	})
	e.reg("strings.Split", func(in *interp, fr *frame, a []value) value {
		if f, ok := a[0].(*fmtstr); ok {
			return in.splitFmt(f, in.cstr(a[1]))
		}
		parts := strings.Split(in.cstr(a[0]), in.cstr(a[1]))
		out := make([]value, len(parts))
		for i, p := range parts {
			out[i] = p
		}
		return out
	})
	e.reg("strings.Join", func(in *interp, fr *frame, a []value) value {
		xs, _ := a[0].([]value)
		var b []*sym.Term
		sep := in.strBytes(a[1])
		for i, x := range xs {
			if i > 0 {
				b = append(b, sep...)
			}
			b = append(b, in.strBytes(x)...)
		}
		return mkStr(b)
	})
	e.reg("strings.Replace", func(in *interp, fr *frame, a []value) value {
		return strings.Replace(in.cstr(a[0]), in.cstr(a[1]), in.cstr(a[2]), int(asInt(a[3])))
	})
	e.reg("strings.ReplaceAll", func(in *interp, fr *frame, a []value) value {
		return strings.ReplaceAll(in.cstr(a[0]), in.cstr(a[1]), in.cstr(a[2]))
	})
	e.reg("strings.ToLower", func(in *interp, fr *frame, a []value) value { return strings.ToLower(in.cstr(a[0])) })
	e.reg("strings.TrimSpace", func(in *interp, fr *frame, a []value) value { return strings.TrimSpace(in.cstr(a[0])) })
	e.reg("strings.ToValidUTF8", func(in *interp, fr *frame, a []value) value {
		if s, ok := a[0].(string); ok {
			return strings.ToValidUTF8(s, in.cstr(a[1]))
		}
		// symbolic: model as "some valid UTF-8 string": replace every byte >= 0x80 by '?'
		// (sound for the only use: making label values acceptable to prometheus)
		b := in.strBytes(a[0])
		out := make([]*sym.Term, len(b))
		for i, t := range b {
			out[i] = in.ctx.Ite(in.ctx.Cmp(sym.OpULt, t, in.ctx.Const(8, 0x80)), t, in.ctx.Const(8, '?'))
		}
		return mkStr(out)
	})
	e.reg("unicode/utf8.ValidString", func(in *interp, fr *frame, a []value) value {
		if s, ok := a[0].(string); ok {
			return in.ctx.Bool(validUTF8(s))
		}
		return in.utf8Valid(in.strBytes(a[0]))
	})
	e.reg("strconv.ParseUint", func(in *interp, fr *frame, a []value) value {
		if f, ok := a[0].(*fmtstr); ok {
			if len(f.num) == 1 && f.lit[0] == "" && f.lit[1] == "" {
				return tuple{in.ctx.Resize(f.num[0], 64, false), iface{}}
			}
			return tuple{in.ctx.Const(64, 0), in.newErr("strconv.ParseUint: invalid syntax", nil)}
		}
		s := in.cstr(a[0])
		v, err := strconv.ParseUint(s, int(asInt(a[1])), int(asInt(a[2])))
		if err != nil {
			return tuple{in.ctx.Const(64, 0), in.newErr("strconv.ParseUint: "+err.Error(), nil)}
		}
		return tuple{in.ctx.Const(64, v), iface{}}
	})
	e.reg("strconv.ParseFloat", func(in *interp, fr *frame, a []value) value {
		s, ok := a[0].(string)
		if !ok {
			return tuple{float64(0), in.newErr("strconv.ParseFloat: symbolic input", nil)}
		}
		v, err := strconv.ParseFloat(s, 64)
		if err != nil {
			return tuple{float64(0), in.newErr("strconv.ParseFloat: "+err.Error(), nil)}
		}
		return tuple{v, iface{}}
	})
	e.reg("strconv.Itoa", func(in *interp, fr *frame, a []value) value { return strconv.Itoa(int(asInt(a[0]))) })
	e.reg("strconv.FormatBool", func(in *interp, fr *frame, a []value) value {
		t := term(a[0])
		if t.IsConst() {
			return strconv.FormatBool(t.K == 1)
		}
		if in.r.branch(t, "FormatBool") {
			return "true"
		}
		return "false"
	})
	e.reg("strconv.FormatUint", func(in *interp, fr *frame, a []value) value {
		t := term(a[0])
		if !t.IsConst() {
			return fmtMarker
		}
		return strconv.FormatUint(t.K, int(asInt(a[1])))
	})
	e.reg("strconv.FormatInt", func(in *interp, fr *frame, a []value) value {
		t := term(a[0])
		if !t.IsConst() {
			return fmtMarker
		}
		return strconv.FormatInt(t.Int(), int(asInt(a[1])))
	})
	e.reg("encoding/hex.EncodeToString", func(in *interp, fr *frame, a []value) value { return "<hex>" })

	// ---------------- fmt / errors ----------------
	e.reg("fmt.Sprintf", func(in *interp, fr *frame, a []value) value {
		args, _ := a[1].([]value)
		return in.sprintf(in.cstr(a[0]), args)
	})
	e.reg("fmt.Sprint", func(in *interp, fr *frame, a []value) value {
		args, _ := a[0].([]value)
		return in.sprintf(strings.Repeat("%v", len(args)), args)
	})
	e.reg("fmt.Println", func(in *interp, fr *frame, a []value) value { return tuple{in.mkInt(0), iface{}} })
	e.reg("fmt.Printf", func(in *interp, fr *frame, a []value) value { return tuple{in.mkInt(0), iface{}} })
	errf := func(in *interp, fr *frame, a []value) value {
		args, _ := a[1].([]value)
		var cause value
		if strings.Contains(in.cstr(a[0]), "%w") {
			for _, x := range args {
				if xi, ok := x.(iface); ok && xi.t != nil && in.isErrorValue(xi) {
					cause = xi
				}
			}
		}
		return in.newErr(fmt.Sprint(in.sprintf(in.cstr(a[0]), args)), cause)
	}
	e.reg("fmt.Errorf", errf)
	e.reg("github.com/pkg/errors.Errorf", func(in *interp, fr *frame, a []value) value {
		args, _ := a[1].([]value)
		return in.newErr(fmt.Sprint(in.sprintf(in.cstr(a[0]), args)), nil)
	})
	e.reg("github.com/pkg/errors.New", func(in *interp, fr *frame, a []value) value { return in.newErr(in.cstr(a[0]), nil) })
	wrap := func(in *interp, fr *frame, a []value) value {
		if in.isNil(a[0]) {
			return iface{}
		}
		return in.newErr("wrap", a[0])
	}
	e.reg("github.com/pkg/errors.Wrap", wrap)
	e.reg("github.com/pkg/errors.Wrapf", wrap)
	e.reg("github.com/pkg/errors.WithStack", wrap)
	e.reg("github.com/pkg/errors.WithMessage", wrap)
	e.reg("github.com/pkg/errors.Cause", func(in *interp, fr *frame, a []value) value {
		cur := a[0].(iface)
		for {
			o, ok := cur.v.(*opaque)
			if !ok || o.cause == nil {
				return cur
			}
			cur = o.cause.(iface)
		}
	})
	is := func(in *interp, fr *frame, a []value) value {
		return in.ctx.Bool(in.errorsIs(fr, a[0].(iface), a[1].(iface)))
	}
	e.reg("errors.Is", is)
	e.reg("github.com/pkg/errors.Is", is)
	e.reg("errors.Unwrap", func(in *interp, fr *frame, a []value) value { return in.unwrap(fr, a[0].(iface)) })
	e.reg("github.com/pkg/errors.Unwrap", func(in *interp, fr *frame, a []value) value { return in.unwrap(fr, a[0].(iface)) })
	asFn := func(in *interp, fr *frame, a []value) value {
		// target is *T (pointer to a variable of some type implementing error)
		err := a[0].(iface)
		tgt := a[1].(iface)
		pt, ok := tgt.t.Underlying().(*types.Pointer)
		if !ok {
			panic(pathEnd{kind: "error", msg: "errors.As: target not a pointer"})
		}
		for err.t != nil {
			if types.Identical(err.t, pt.Elem()) {
				*(tgt.v.(*value)) = err.v
				return in.ctx.T
			}
			if _, isIface := pt.Elem().Underlying().(*types.Interface); isIface {
				if types.Implements(err.t, pt.Elem().Underlying().(*types.Interface)) {
					*(tgt.v.(*value)) = err
					return in.ctx.T
				}
			}
			err = in.unwrap(fr, err).(iface)
		}
		return in.ctx.F
	}
	e.reg("errors.As", asFn)
	e.reg("github.com/pkg/errors.As", asFn)

	// ---------------- sort ----------------
	e.reg("sort.Slice", func(in *interp, fr *frame, a []value) value {
		s, _ := a[0].(iface).v.([]value)
		less := a[1]
		lt := func(i, j int) bool {
			r := in.call(fr, 0, less, []value{in.mkInt(i), in.mkInt(j)})
			return in.r.branch(term(r), "sort.less")
		}
		// insertion sort driven by the real less closure (stable, n small)
		for i := 1; i < len(s); i++ {
			for j := i; j > 0 && lt(j, j-1); j-- {
				s[j], s[j-1] = s[j-1], s[j]
			}
		}
		return nil
	})
	e.reg("sort.Strings", func(in *interp, fr *frame, a []value) value {
		s, _ := a[0].([]value)
		sort.Slice(s, func(i, j int) bool { return in.cstr(s[i]) < in.cstr(s[j]) })
		return nil
	})

	registerSync(e)
	registerSyncMap(e)
	registerSyncPool(e)
	registerEnv(e)
}

func (in *interp) cstr(v value) string {
	s, ok := v.(string)
	if !ok {
		panic(pathEnd{kind: "error", msg: "symbolic string where a concrete one is required (override)"})
	}
	if strings.Contains(s, fmtMarker) {
		panic(pathEnd{kind: "error", msg: "string formatted from symbolic data used by an override that needs its content"})
	}
	return s
}

func (in *interp) uniq(name string) string {
	if in.nameCount == nil {
		in.nameCount = map[string]int{}
	}
	n := in.nameCount[name]
	in.nameCount[name] = n + 1
	if n == 0 {
		return name
	}
	return name + "#" + strconv.Itoa(n)
}

// indexOf returns the 64-bit term of the first index of sub in s, or -1.
func (in *interp) indexOf(s, sub []*sym.Term) *sym.Term {
	c := in.ctx
	res := c.Const(64, ^uint64(0))
	for i := len(s) - len(sub); i >= 0; i-- {
		m := in.bytesEq(s[i:i+len(sub)], sub)
		res = c.Ite(m, c.Const(64, uint64(i)), res)
	}
	return res
}

func validUTF8(s string) bool {
	for _, r := range s {
		if r == 0xFFFD {
			// could be a literal U+FFFD; check by re-encoding
		}
	}
	return strings.ToValidUTF8(s, "\x00\x00bad") == s
}

// utf8Valid builds the validity predicate for a symbolic byte string of concrete length
// (DFA over positions; Unicode 3.1 table of well-formed byte sequences).
func (in *interp) utf8Valid(b []*sym.Term) *sym.Term {
	c := in.ctx
	n := len(b)
	rng := func(t *sym.Term, lo, hi byte) *sym.Term {
		return c.And(c.Cmp(sym.OpULe, c.Const(8, uint64(lo)), t), c.Cmp(sym.OpULe, t, c.Const(8, uint64(hi))))
	}
	valid := make([]*sym.Term, n+1)
	valid[n] = c.T
	for i := n - 1; i >= 0; i-- {
		v := c.And(rng(b[i], 0x00, 0x7f), valid[i+1])
		if i+1 < n {
			v = c.Or(v, c.And(c.And(rng(b[i], 0xc2, 0xdf), rng(b[i+1], 0x80, 0xbf)), valid[i+2]))
		}
		if i+2 < n {
			cont := rng(b[i+2], 0x80, 0xbf)
			three := c.Or(c.Or(
				c.And(c.Eq(b[i], c.Const(8, 0xe0)), rng(b[i+1], 0xa0, 0xbf)),
				c.And(c.Or(rng(b[i], 0xe1, 0xec), rng(b[i], 0xee, 0xef)), rng(b[i+1], 0x80, 0xbf))),
				c.And(c.Eq(b[i], c.Const(8, 0xed)), rng(b[i+1], 0x80, 0x9f)))
			v = c.Or(v, c.And(c.And(three, cont), valid[i+3]))
		}
		if i+3 < n {
			cont := c.And(rng(b[i+2], 0x80, 0xbf), rng(b[i+3], 0x80, 0xbf))
			four := c.Or(c.Or(
				c.And(c.Eq(b[i], c.Const(8, 0xf0)), rng(b[i+1], 0x90, 0xbf)),
				c.And(rng(b[i], 0xf1, 0xf3), rng(b[i+1], 0x80, 0xbf))),
				c.And(c.Eq(b[i], c.Const(8, 0xf4)), rng(b[i+1], 0x80, 0x8f)))
			v = c.Or(v, c.And(c.And(four, cont), valid[i+4]))
		}
		valid[i] = v
	}
	return valid[0]
}

func intTermOf(v value) *sym.Term {
	if i, ok := v.(iface); ok {
		v = i.v
	}
	t, _ := v.(*sym.Term)
	if t != nil && t.W == 0 {
		return nil
	}
	return t
}

// sprintf: concrete formatting of the verbs the code uses; symbolic operands yield a marker.
func (in *interp) sprintf(format string, args []value) value {
	var sb strings.Builder
	ai := 0
	symbolic := false
	fs := &fmtstr{}
	for i := 0; i < len(format); i++ {
		ch := format[i]
		if ch != '%' {
			sb.WriteByte(ch)
			continue
		}
		i++
		if i >= len(format) {
			break
		}
		// skip flags/width
		for i < len(format) && strings.IndexByte("+-# 0123456789.", format[i]) >= 0 {
			i++
		}
		if i >= len(format) {
			break
		}
		verb := format[i]
		if verb == '%' {
			sb.WriteByte('%')
			continue
		}
		if ai >= len(args) {
			sb.WriteString("%!" + string(verb) + "(MISSING)")
			continue
		}
		if verb == 'd' {
			if t := intTermOf(args[ai]); t != nil && !t.IsConst() {
				fs.lit = append(fs.lit, sb.String())
				fs.num = append(fs.num, t)
				sb.Reset()
				ai++
				continue
			}
		}
		s, ok := in.fmtArg(args[ai], verb)
		ai++
		if !ok {
			symbolic = true
		}
		sb.WriteString(s)
	}
	if symbolic {
		return fmtMarker + sb.String()
	}
	if len(fs.num) > 0 {
		fs.lit = append(fs.lit, sb.String())
		return fs
	}
	return sb.String()
}

func (in *interp) fmtArg(v value, verb byte) (string, bool) {
	if i, ok := v.(iface); ok {
		if i.t == nil {
			return "<nil>", true
		}
		if o, ok := i.v.(*opaque); ok {
			return "opaque:" + o.name, true
		}
		// byte slices / Key types with %s
		if sl, ok := i.v.([]value); ok {
			bs := in.sliceBytes(sl)
			for _, b := range bs {
				if !b.IsConst() {
					return "?", false
				}
			}
			s := mkStr(bs).(string)
			if verb == 'v' || verb == 'd' {
				return fmt.Sprint([]byte(s)), true
			}
			return s, true
		}
		// error / Stringer implemented by interpreted code: keep it cheap and opaque
		if _, isPtr := i.v.(*value); isPtr {
			return "&{…}", true
		}
		return in.fmtArg(i.v, verb)
	}
	switch x := v.(type) {
	case *sym.Term:
		if !x.IsConst() {
			return "?", false
		}
		if x.W == 0 {
			return strconv.FormatBool(x.K == 1), true
		}
		return strconv.FormatInt(x.Int(), 10), true
	case string:
		if verb == 'q' {
			return strconv.Quote(x), true
		}
		return x, true
	case *symstr:
		return "?", false
	case float64:
		return fmt.Sprint(x), true
	case nil:
		return "<nil>", true
	}
	return "<" + fmt.Sprintf("%T", v) + ">", true
}

// ---- errors ----

func (in *interp) newErr(msg string, cause value) iface {
	o := &opaque{name: "err:" + msg, cause: cause}
	return iface{t: in.eng.opaqueType("error"), v: o}
}

func (in *interp) isErrorValue(x iface) bool {
	if _, ok := x.v.(*opaque); ok {
		return true
	}
	ms := in.prog.MethodSets.MethodSet(x.t)
	return ms.Lookup(nil, "Error") != nil
}

func (in *interp) methodOf(x iface, name string) *ssa.Function {
	if x.t == nil {
		return nil
	}
	if _, ok := x.v.(*opaque); ok {
		return nil
	}
	ms := in.prog.MethodSets.MethodSet(x.t)
	for i := 0; i < ms.Len(); i++ {
		if ms.At(i).Obj().Name() == name {
			return in.prog.MethodValue(ms.At(i))
		}
	}
	return nil
}

func (in *interp) unwrap(fr *frame, err iface) value {
	if err.t == nil {
		return iface{}
	}
	if o, ok := err.v.(*opaque); ok {
		if o.cause != nil {
			return o.cause
		}
		return iface{}
	}
	if m := in.methodOf(err, "Unwrap"); m != nil && m.Signature.Results().Len() == 1 {
		return in.call(fr, 0, m, []value{err.v})
	}
	return iface{}
}

func (in *interp) errorsIs(fr *frame, err, target iface) bool {
	for depth := 0; err.t != nil && depth < 16; depth++ {
		if comparableIface(err) && comparableIface(target) {
			if in.r.branch(in.equals(nil, err, target), "errors.Is") {
				return true
			}
		}
		if m := in.methodOf(err, "Is"); m != nil {
			r := in.call(fr, 0, m, []value{err.v, target})
			if in.r.branch(term(r), "errors.Is/method") {
				return true
			}
		}
		err = in.unwrap(fr, err).(iface)
	}
	return false
}

func comparableIface(x iface) bool {
	if x.t == nil {
		return true
	}
	return types.Comparable(x.t)
}
