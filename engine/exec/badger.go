package exec

import (
	"fmt"
	"go/types"

	"gosym/sym"
)

// ---------------- github.com/dgraph-io/badger model (v1.6.2 API used by the adapter) ----------------
//
// DB = committed sorted entries with a per-entry version and a commit counter. Txn = snapshot
// taken at NewTransaction + pending writes; Get sees the pending writes; Commit applies them and
// bumps the commit counter (conflict detection between concurrent transactions: a transaction
// that read a key modified after its snapshot fails with ErrConflict). Iterator: forward/reverse
// over the snapshot merged with pending writes, Seek positions at the first key >= (<= when
// reversed) the argument. ReadTs = commit counter at the snapshot. TTL: an entry written with WithTTL(d) at time t0 stops being
// visible at t0 + d rounded down to a whole second (the phase of the second is a fresh unknown).

const bdgPkg = "github.com/dgraph-io/badger"

type bdgEnt struct {
	key     []*sym.Term
	val     []*sym.Term
	version uint64
	deleted bool
	exp     *sym.Term // nil = no TTL; else the instant (ns) from which the entry is expired
}

// bdgLive decides (branching when symbolic) whether an entry written with a TTL is still visible.
func (in *interp) bdgLive(e bdgEnt) bool {
	if e.exp == nil {
		return true
	}
	now := term(in.now().(structure)[1])
	return in.r.branch(in.ctx.Cmp(sym.OpSLt, now, e.exp), "badger-ttl-live")
}

type bdgDB struct {
	ents    []bdgEnt // sorted by key, tombstones kept (deleted=true)
	commits uint64
}

type bdgTxn struct {
	db      *bdgDB
	update  bool
	snap    []bdgEnt
	readTs  uint64
	pending []bdgEnt // writes in order
	reads   [][]*sym.Term
	done    bool
}

type bdgItem struct {
	e bdgEnt
}

type bdgIter struct {
	txn     *bdgTxn
	reverse bool
	view    []bdgEnt // visible entries in iteration order
	pos     int
}

func (in *interp) bdgObj(p *value) value { return *p }

func box(x value) *value { v := x; return &v }

// bdgLookup finds key in a sorted entry list.
func (in *interp) bdgFind(ents []bdgEnt, k []*sym.Term) (int, bool) {
	for i := range ents {
		if in.r.branch(in.bytesEq(ents[i].key, k), "badger-eq") {
			return i, true
		}
		if in.r.branch(in.bytesLt(k, ents[i].key), "badger-lt") {
			return i, false
		}
	}
	return len(ents), false
}

func (in *interp) bdgPut(ents []bdgEnt, e bdgEnt) []bdgEnt {
	i, ok := in.bdgFind(ents, e.key)
	if ok {
		out := append([]bdgEnt(nil), ents...)
		out[i] = e
		return out
	}
	out := make([]bdgEnt, 0, len(ents)+1)
	out = append(out, ents[:i]...)
	out = append(out, e)
	out = append(out, ents[i:]...)
	return out
}

// view merges snapshot and pending writes into the entries visible to the transaction.
func (in *interp) bdgView(t *bdgTxn) []bdgEnt {
	v := append([]bdgEnt(nil), t.snap...)
	for _, p := range t.pending {
		v = in.bdgPut(v, p)
	}
	var out []bdgEnt
	for _, e := range v {
		if !e.deleted && in.bdgLive(e) {
			out = append(out, e)
		}
	}
	return out
}

func registerBadger(e *Engine) {
	if e.namedTypeOrNil(bdgPkg, "DB") == nil {
		return
	}
	bytesOf := func(in *interp, v value) []*sym.Term {
		sl, _ := v.([]value)
		return in.sliceBytes(sl)
	}
	sentinel := func(in *interp, name string) value { return in.sentinel(bdgPkg, name) }
	e.reg(bdgPkg+".DefaultOptions", func(in *interp, fr *frame, a []value) value {
		return in.zero(in.eng.namedType(bdgPkg, "Options"))
	})
	e.reg(bdgPkg+".Open", func(in *interp, fr *frame, a []value) value {
		return tuple{box(&bdgDB{commits: 1}), iface{}}
	})
	e.reg("(*"+bdgPkg+".DB).Close", func(in *interp, fr *frame, a []value) value { return iface{} })
	newTxn := func(in *interp, db *bdgDB, upd bool) *value {
		in.sch.yield("badger:begin")
		return box(&bdgTxn{db: db, update: upd, snap: append([]bdgEnt(nil), db.ents...), readTs: db.commits})
	}
	e.reg("(*"+bdgPkg+".DB).NewTransaction", func(in *interp, fr *frame, a []value) value {
		db := (*a[0].(*value)).(*bdgDB)
		upd := in.r.branch(term(a[1]), "badger-update")
		return newTxn(in, db, upd)
	})
	// View / Update: run the closure in a fresh read-only / read-write transaction
	e.reg("(*"+bdgPkg+".DB).View", func(in *interp, fr *frame, a []value) value {
		t := newTxn(in, (*a[0].(*value)).(*bdgDB), false)
		err := in.call(fr, 0, a[1], []value{t})
		(*t).(*bdgTxn).done = true
		return err
	})
	e.reg("(*"+bdgPkg+".DB).Update", func(in *interp, fr *frame, a []value) value {
		t := newTxn(in, (*a[0].(*value)).(*bdgDB), true)
		err := in.call(fr, 0, a[1], []value{t})
		if !in.isNil(err) {
			(*t).(*bdgTxn).done = true
			return err
		}
		return in.eng.overrides["(*"+bdgPkg+".Txn).Commit"].f(in, fr, []value{t})
	})
	txnOf := func(a []value) *bdgTxn { return (*a[0].(*value)).(*bdgTxn) }
	e.reg("(*"+bdgPkg+".Txn).ReadTs", func(in *interp, fr *frame, a []value) value {
		return in.ctx.Const(64, txnOf(a).readTs)
	})
	e.reg("(*"+bdgPkg+".Txn).Discard", func(in *interp, fr *frame, a []value) value {
		txnOf(a).done = true
		return nil
	})
	e.reg("(*"+bdgPkg+".Txn).Get", func(in *interp, fr *frame, a []value) value {
		t := txnOf(a)
		k := bytesOf(in, a[1])
		in.sch.yieldRead("badger:get")
		t.reads = append(t.reads, k)
		for i := len(t.pending) - 1; i >= 0; i-- {
			if in.r.branch(in.bytesEq(t.pending[i].key, k), "badger-pending") {
				if t.pending[i].deleted || !in.bdgLive(t.pending[i]) {
					return tuple{(*value)(nil), sentinel(in, "ErrKeyNotFound")}
				}
				return tuple{box(&bdgItem{t.pending[i]}), iface{}}
			}
		}
		i, ok := in.bdgFind(t.snap, k)
		if !ok || t.snap[i].deleted || !in.bdgLive(t.snap[i]) {
			return tuple{(*value)(nil), sentinel(in, "ErrKeyNotFound")}
		}
		return tuple{box(&bdgItem{t.snap[i]}), iface{}}
	})
	write := func(in *interp, t *bdgTxn, k, v []*sym.Term, del bool, exp ...*sym.Term) value {
		if !t.update {
			return sentinel(in, "ErrReadOnlyTxn")
		}
		if len(k) == 0 {
			return sentinel(in, "ErrEmptyKey")
		}
		ent := bdgEnt{key: k, val: v, deleted: del}
		if len(exp) > 0 {
			ent.exp = exp[0]
		}
		t.pending = append(t.pending, ent)
		return iface{}
	}
	e.reg("(*"+bdgPkg+".Txn).Set", func(in *interp, fr *frame, a []value) value {
		return write(in, txnOf(a), bytesOf(in, a[1]), bytesOf(in, a[2]), false)
	})
	e.reg("(*"+bdgPkg+".Txn).Delete", func(in *interp, fr *frame, a []value) value {
		return write(in, txnOf(a), bytesOf(in, a[1]), nil, true)
	})
	e.reg(bdgPkg+".NewEntry", func(in *interp, fr *frame, a []value) value {
		ent := in.zero(in.eng.namedType(bdgPkg, "Entry")).(structure)
		ent[0], ent[1] = a[0], a[1]
		var v value = ent
		return &v
	})
	expIdx := fieldIndex(e.namedType(bdgPkg, "Entry"), "ExpiresAt")
	e.reg("(*"+bdgPkg+".Entry).WithTTL", func(in *interp, fr *frame, a []value) value {
		// badger: ExpiresAt = uint64(time.Now().Add(d).Unix()), compared with time.Now().Unix() on reads.
		// Model (nanoseconds, no division): expired from t0 + d - phase on, phase in [0, 1s) unknown.
		ent := (*a[0].(*value)).(structure)
		c := in.ctx
		in.ttlSeq++
		phase := c.Var(fmt.Sprintf("ttlphase%d", in.ttlSeq), 64)
		in.r.assertPC(c.Cmp(sym.OpSLe, c.Const(64, 0), phase))
		in.r.assertPC(c.Cmp(sym.OpSLt, phase, c.Const(64, 1000000000)))
		now := term(in.now().(structure)[1])
		ent[expIdx] = c.Bin(sym.OpSub, c.Bin(sym.OpAdd, now, term(a[1])), phase)
		return a[0]
	})
	e.reg("(*"+bdgPkg+".Txn).SetEntry", func(in *interp, fr *frame, a []value) value {
		ent := (*a[1].(*value)).(structure)
		if x := term(ent[expIdx]); !(x.IsConst() && x.Int() == 0) {
			return write(in, txnOf(a), bytesOf(in, ent[0]), bytesOf(in, ent[1]), false, x)
		}
		return write(in, txnOf(a), bytesOf(in, ent[0]), bytesOf(in, ent[1]), false)
	})
	e.reg("(*"+bdgPkg+".Txn).Commit", func(in *interp, fr *frame, a []value) value {
		t := txnOf(a)
		if t.done {
			return sentinel(in, "ErrDiscardedTxn")
		}
		t.done = true
		if len(t.pending) == 0 {
			return iface{}
		}
		in.sch.yield("badger:commit")
		db := t.db
		// conflict: a key this transaction read was committed by someone else after the snapshot
		for _, k := range t.reads {
			if i, ok := in.bdgFind(db.ents, k); ok && db.ents[i].version > t.readTs {
				return sentinel(in, "ErrConflict")
			}
		}
		db.commits++
		for _, p := range t.pending {
			p.version = db.commits
			db.ents = in.bdgPut(db.ents, p)
		}
		in.sch.wepoch++
		return iface{}
	})
	// items
	itemOf := func(a []value) *bdgItem { return (*a[0].(*value)).(*bdgItem) }
	cpBytes := func(b []*sym.Term) value { return termsToSlice(append([]*sym.Term(nil), b...)) }
	e.reg("(*"+bdgPkg+".Item).Key", func(in *interp, fr *frame, a []value) value { return cpBytes(itemOf(a).e.key) })
	e.reg("(*"+bdgPkg+".Item).KeyCopy", func(in *interp, fr *frame, a []value) value { return cpBytes(itemOf(a).e.key) })
	e.reg("(*"+bdgPkg+".Item).ValueCopy", func(in *interp, fr *frame, a []value) value {
		return tuple{cpBytes(itemOf(a).e.val), iface{}}
	})
	e.reg("(*"+bdgPkg+".Item).Value", func(in *interp, fr *frame, a []value) value {
		return in.call(fr, 0, a[1], []value{cpBytes(itemOf(a).e.val)})
	})
	e.reg("(*"+bdgPkg+".Item).Version", func(in *interp, fr *frame, a []value) value {
		return in.ctx.Const(64, itemOf(a).e.version)
	})
	// iterators
	e.reg("(*"+bdgPkg+".Txn).NewIterator", func(in *interp, fr *frame, a []value) value {
		t := txnOf(a)
		opts := a[1].(structure)
		st := in.eng.namedType(bdgPkg, "IteratorOptions").Underlying().(*types.Struct)
		rev := false
		for i := 0; i < st.NumFields(); i++ {
			if st.Field(i).Name() == "Reverse" {
				rev = in.r.branch(term(opts[i]), "badger-reverse")
			}
		}
		view := in.bdgView(t)
		if rev {
			for i, j := 0, len(view)-1; i < j; i, j = i+1, j-1 {
				view[i], view[j] = view[j], view[i]
			}
		}
		return box(&bdgIter{txn: t, reverse: rev, view: view, pos: len(view)})
	})
	iterOf := func(a []value) *bdgIter { return (*a[0].(*value)).(*bdgIter) }
	e.reg("(*"+bdgPkg+".Iterator).Seek", func(in *interp, fr *frame, a []value) value {
		it := iterOf(a)
		k := bytesOf(in, a[1])
		it.pos = len(it.view)
		for i, e := range it.view {
			var ok *sym.Term
			if it.reverse {
				ok = in.ctx.Not(in.bytesLt(k, e.key)) // e.key <= k
			} else {
				ok = in.ctx.Not(in.bytesLt(e.key, k)) // e.key >= k
			}
			if len(k) == 0 || in.r.branch(ok, "badger-seek") {
				it.pos = i
				break
			}
		}
		return nil
	})
	e.reg("(*"+bdgPkg+".Iterator).Rewind", func(in *interp, fr *frame, a []value) value { iterOf(a).pos = 0; return nil })
	e.reg("(*"+bdgPkg+".Iterator).Next", func(in *interp, fr *frame, a []value) value { iterOf(a).pos++; return nil })
	e.reg("(*"+bdgPkg+".Iterator).Valid", func(in *interp, fr *frame, a []value) value {
		it := iterOf(a)
		return in.ctx.Bool(it.pos >= 0 && it.pos < len(it.view))
	})
	e.reg("(*"+bdgPkg+".Iterator).Item", func(in *interp, fr *frame, a []value) value {
		it := iterOf(a)
		if it.pos < 0 || it.pos >= len(it.view) {
			panic(rtPanic("badger: Item() on an invalid iterator"))
		}
		return box(&bdgItem{it.view[it.pos]})
	})
	e.reg("(*"+bdgPkg+".Iterator).Close", func(in *interp, fr *frame, a []value) value { return nil })
}
