package exec

import (
	"go/types"

	"gosym/sym"
)

// ---------------- TiKV client model (github.com/tikv/client-go/v2 v2.0.1, API used by the adapter) ----------------
//
// KVStore = committed sorted entries with commit timestamps and a timestamp counter.
// KVTxn = snapshot at Begin (start ts) + membuffer; Get reads the membuffer, then the snapshot,
// and answers tikverr.ErrNotExist when absent; Commit fails with a write-conflict error when a
// written key was committed by another transaction after the start ts, else applies the buffer.
// KVSnapshot.Iter(k, upper) = ascending over [k, upper); IterReverse(k) = descending from the
// greatest key < k, unbounded below. ScanRegions answers the regions given by zzverif.SetTiKVRegions
// (default: one region covering everything).

const (
	tikvPkg  = "github.com/tikv/client-go/v2/tikv"
	txnPkg   = "github.com/tikv/client-go/v2/txnkv/transaction"
	snapPkg  = "github.com/tikv/client-go/v2/txnkv/txnsnapshot"
	terrPkg  = "github.com/tikv/client-go/v2/error"
	tutilPkg = "github.com/tikv/client-go/v2/testutils"
	txnkvPkg = "github.com/tikv/client-go/v2/txnkv"
)

type tkEnt struct {
	key, val []*sym.Term
	ts       uint64
	deleted  bool
}

type tkStore struct {
	ents []tkEnt
	ts   uint64
	hist []tkHist // the committed state after every commit, oldest first (multi-version reads)
}

type tkHist struct {
	ts   uint64
	ents []tkEnt
}

// tkScanBatch is the number of keys the client fetches per scan request (txnsnapshot's
// scanBatchSize, client-go v2.0.1): an iteration longer than that is fed by several requests,
// each of which reads the store at the snapshot's timestamp *when it is sent*.
const tkScanBatch = 256

// viewAt is the committed state visible at timestamp ts: the newest recorded state whose
// commit timestamp is <= ts (for a timestamp the oracle has not issued yet this is "whatever is
// committed now", and it changes with later commits).
func (in *interp) viewAt(st *tkStore, ts *sym.Term) []tkEnt {
	for i := len(st.hist) - 1; i >= 0; i-- {
		if in.r.branch(in.ctx.Cmp(sym.OpULe, in.ctx.Const(64, st.hist[i].ts), ts), "tikv-snapshot-ts") {
			return live(st.hist[i].ents)
		}
	}
	return nil
}

type tkTxn struct {
	st      *tkStore
	startTS uint64
	snap    []tkEnt
	buf     []tkEnt
	done    bool
}

type tkSnap struct {
	st *tkStore
	ts *sym.Term
}

// tkIter: cache = the keys of the last scan request; when it is used up and the request was
// answered with a full batch, the next request continues behind the last key.
type tkIter struct {
	snap    *tkSnap
	reverse bool
	lo, hi  []*sym.Term // forward: [lo, hi) with empty hi = unbounded; reverse: keys < hi, unbounded below
	view    []tkEnt
	pos     int
	full    bool
}

func (it *tkIter) fetch(in *interp) {
	all := in.viewAt(it.snap.st, it.snap.ts)
	it.view, it.pos = nil, 0
	if !it.reverse {
		for _, e := range all {
			ge := in.ctx.Not(in.bytesLt(e.key, it.lo))
			lt := in.ctx.T
			if len(it.hi) > 0 {
				lt = in.bytesLt(e.key, it.hi)
			}
			if in.r.branch(in.ctx.And(ge, lt), "tikv-iter") {
				it.view = append(it.view, e)
				if len(it.view) == tkScanBatch {
					break
				}
			}
		}
	} else {
		for i := len(all) - 1; i >= 0; i-- {
			e := all[i]
			if len(it.hi) == 0 || in.r.branch(in.bytesLt(e.key, it.hi), "tikv-iter-rev") {
				it.view = append(it.view, e)
				if len(it.view) == tkScanBatch {
					break
				}
			}
		}
	}
	it.full = len(it.view) == tkScanBatch
}

func (it *tkIter) callMethod(in *interp, fr *frame, name string, args []value) value {
	switch name {
	case "Valid":
		return in.ctx.Bool(it.pos < len(it.view))
	case "Key":
		return termsToSlice(append([]*sym.Term(nil), it.view[it.pos].key...))
	case "Value":
		return termsToSlice(append([]*sym.Term(nil), it.view[it.pos].val...))
	case "Next":
		it.pos++
		if it.pos >= len(it.view) && it.full {
			last := it.view[len(it.view)-1].key
			if it.reverse {
				it.hi = last
			} else {
				it.lo = append(append([]*sym.Term(nil), last...), in.ctx.Const(8, 0))
			}
			it.fetch(in)
		}
		return iface{}
	case "Close":
		return nil
	}
	panic(pathEnd{kind: "error", msg: "tikv iterator method " + name})
}

type tkOracle struct{ st *tkStore }

func (o *tkOracle) callMethod(in *interp, fr *frame, name string, args []value) value {
	switch name {
	case "GetTimestamp":
		if in.tkOracleFault > 0 {
			in.tkOracleFault--
			if in.tkOracleFault == 0 {
				// the PD timestamp request fails (zzverif.SetTiKVOracleFault)
				return tuple{in.ctx.Const(64, 0), in.newErr("pd: timestamp request failed", nil)}
			}
		}
		o.st.ts++
		return tuple{in.ctx.Const(64, o.st.ts), iface{}}
	}
	panic(pathEnd{kind: "error", msg: "tikv oracle method " + name})
}

type tkPD struct{ in *interp }

func (p *tkPD) callMethod(in *interp, fr *frame, name string, args []value) value {
	switch name {
	case "ScanRegions":
		// the regions (split at the keys given by zzverif.SetTiKVRegions; none = one region covering
		// everything) that overlap [start, end): the first region starts at "" and the last ends at ""
		if len(in.tkSplits) == 0 {
			return tuple{[]value(nil), iface{}}
		}
		start := in.sliceBytes(args[1].([]value))
		end := in.sliceBytes(args[2].([]value))
		rt := in.eng.namedType("github.com/tikv/pd/client", "Region")
		mt := in.eng.namedType("github.com/pingcap/kvproto/pkg/metapb", "Region")
		var out []value
		n := len(in.tkSplits)
		for i := 0; i <= n; i++ {
			var lo, hi []*sym.Term
			if i > 0 {
				lo = in.tkSplits[i-1]
			}
			if i < n {
				hi = in.tkSplits[i]
			}
			// overlaps iff lo < end (an empty end means unbounded) and (hi == "" or hi > start)
			if len(end) > 0 && i > 0 && !in.r.branch(in.bytesLt(lo, end), "region-before-end") {
				continue
			}
			if i < n && !in.r.branch(in.bytesLt(start, hi), "region-after-start") {
				continue
			}
			meta := in.zero(mt).(structure)
			meta[fieldIndex(mt, "StartKey")] = termsToSlice(append([]*sym.Term(nil), lo...))
			meta[fieldIndex(mt, "EndKey")] = termsToSlice(append([]*sym.Term(nil), hi...))
			var mv value = meta
			reg := in.zero(rt).(structure)
			reg[fieldIndex(rt, "Meta")] = &mv
			var rv value = reg
			out = append(out, &rv)
		}
		return tuple{out, iface{}}
	}
	panic(pathEnd{kind: "error", msg: "pd client method " + name})
}

func (in *interp) tkFind(ents []tkEnt, k []*sym.Term) (int, bool) {
	for i := range ents {
		if in.r.branch(in.bytesEq(ents[i].key, k), "tikv-eq") {
			return i, true
		}
		if in.r.branch(in.bytesLt(k, ents[i].key), "tikv-lt") {
			return i, false
		}
	}
	return len(ents), false
}

func (in *interp) tkPut(ents []tkEnt, e tkEnt) []tkEnt {
	i, ok := in.tkFind(ents, e.key)
	out := make([]tkEnt, 0, len(ents)+1)
	out = append(out, ents[:i]...)
	out = append(out, e)
	if ok {
		out = append(out, ents[i+1:]...)
	} else {
		out = append(out, ents[i:]...)
	}
	return out
}

func live(ents []tkEnt) []tkEnt {
	var out []tkEnt
	for _, e := range ents {
		if !e.deleted {
			out = append(out, e)
		}
	}
	return out
}

func registerTiKV(e *Engine) {
	if e.namedTypeOrNil(tikvPkg, "KVStore") == nil {
		return
	}
	bytesOf := func(in *interp, v value) []*sym.Term {
		sl, _ := v.([]value)
		return in.sliceBytes(sl)
	}
	e.reg(tutilPkg+".NewMockTiKV", func(in *interp, fr *frame, a []value) value {
		return tuple{(*value)(nil), (*value)(nil), iface{}, iface{}}
	})
	e.reg(tutilPkg+".BootstrapWithMultiRegions", func(in *interp, fr *frame, a []value) value {
		return in.zero(fr.fn.Signature.Results())
	})
	e.reg("github.com/tikv/client-go/v2/internal/mockstore/mocktikv.BootstrapWithMultiRegions", func(in *interp, fr *frame, a []value) value {
		return in.zero(fr.fn.Signature.Results())
	})
	e.reg(tutilPkg+".BootstrapWithSingleStore", func(in *interp, fr *frame, a []value) value {
		return in.zero(fr.fn.Signature.Results())
	})
	e.reg(tikvPkg+".NewTestTiKVStore", func(in *interp, fr *frame, a []value) value {
		return tuple{box(&tkStore{ts: 10}), iface{}}
	})
	storeOf := func(v value) *tkStore { return (*v.(*value)).(*tkStore) }
	clientStore := func(in *interp, v value) *tkStore {
		// *txnkv.Client{KVStore *tikv.KVStore}
		c := (*v.(*value)).(structure)
		return storeOf(c[0])
	}
	begin := func(in *interp, st *tkStore) value {
		in.sch.yield("tikv:begin")
		st.ts++
		return tuple{box(&tkTxn{st: st, startTS: st.ts, snap: append([]tkEnt(nil), st.ents...)}), iface{}}
	}
	e.reg("(*"+tikvPkg+".KVStore).Begin", func(in *interp, fr *frame, a []value) value { return begin(in, storeOf(a[0])) })
	e.reg("(*"+txnkvPkg+".Client).Begin", func(in *interp, fr *frame, a []value) value { return begin(in, clientStore(in, a[0])) })
	snapshot := func(in *interp, st *tkStore, ts *sym.Term) value {
		return box(&tkSnap{st: st, ts: ts})
	}
	e.reg("(*"+tikvPkg+".KVStore).GetSnapshot", func(in *interp, fr *frame, a []value) value { return snapshot(in, storeOf(a[0]), term(a[1])) })
	e.reg("(*"+txnkvPkg+".Client).GetSnapshot", func(in *interp, fr *frame, a []value) value {
		return snapshot(in, clientStore(in, a[0]), term(a[1]))
	})
	oracle := func(in *interp, st *tkStore) value {
		return iface{t: in.eng.opaqueType("tikv.oracle"), v: &tkOracle{st}}
	}
	e.reg("(*"+tikvPkg+".KVStore).GetOracle", func(in *interp, fr *frame, a []value) value { return oracle(in, storeOf(a[0])) })
	e.reg("(*"+txnkvPkg+".Client).GetOracle", func(in *interp, fr *frame, a []value) value { return oracle(in, clientStore(in, a[0])) })
	pdc := func(in *interp) value { return iface{t: in.eng.opaqueType("pd.client"), v: &tkPD{in}} }
	e.reg("(*"+tikvPkg+".KVStore).GetPDClient", func(in *interp, fr *frame, a []value) value { return pdc(in) })
	e.reg("(*"+txnkvPkg+".Client).GetPDClient", func(in *interp, fr *frame, a []value) value { return pdc(in) })
	e.reg("(*"+tikvPkg+".KVStore).Close", func(in *interp, fr *frame, a []value) value { return iface{} })
	e.reg("(*"+txnkvPkg+".Client).Close", func(in *interp, fr *frame, a []value) value { return iface{} })

	txnOf := func(a []value) *tkTxn { return (*a[0].(*value)).(*tkTxn) }
	e.reg("(*"+txnPkg+".KVTxn).Get", func(in *interp, fr *frame, a []value) value {
		t := txnOf(a)
		k := bytesOf(in, a[2])
		for i := len(t.buf) - 1; i >= 0; i-- {
			if in.r.branch(in.bytesEq(t.buf[i].key, k), "tikv-buf") {
				if t.buf[i].deleted {
					return tuple{[]value(nil), in.sentinel(terrPkg, "ErrNotExist")}
				}
				return tuple{termsToSlice(append([]*sym.Term(nil), t.buf[i].val...)), iface{}}
			}
		}
		i, ok := in.tkFind(t.snap, k)
		if !ok || t.snap[i].deleted {
			return tuple{[]value(nil), in.sentinel(terrPkg, "ErrNotExist")}
		}
		return tuple{termsToSlice(append([]*sym.Term(nil), t.snap[i].val...)), iface{}}
	})
	e.reg("(*"+txnPkg+".KVTxn).Set", func(in *interp, fr *frame, a []value) value {
		t := txnOf(a)
		k, v := bytesOf(in, a[1]), bytesOf(in, a[2])
		if len(v) == 0 {
			return in.sentinel(terrPkg, "ErrCannotSetNilValue")
		}
		t.buf = append(t.buf, tkEnt{key: k, val: v})
		return iface{}
	})
	e.reg("(*"+txnPkg+".KVTxn).Delete", func(in *interp, fr *frame, a []value) value {
		t := txnOf(a)
		t.buf = append(t.buf, tkEnt{key: bytesOf(in, a[1]), deleted: true})
		return iface{}
	})
	e.reg("(*"+txnPkg+".KVTxn).Rollback", func(in *interp, fr *frame, a []value) value { txnOf(a).done = true; return iface{} })
	e.reg("(*"+txnPkg+".KVTxn).Commit", func(in *interp, fr *frame, a []value) value {
		t := txnOf(a)
		t.done = true
		if len(t.buf) == 0 {
			return iface{}
		}
		in.sch.yield("tikv:commit")
		st := t.st
		for _, w := range t.buf {
			if i, ok := in.tkFind(st.ents, w.key); ok && st.ents[i].ts > t.startTS {
				er := in.newErr("tikv: write conflict", nil)
				er.v.(*opaque).data = map[string]value{"writeConflict": in.ctx.T}
				return er
			}
		}
		st.ts++
		for _, w := range t.buf {
			w.ts = st.ts
			st.ents = in.tkPut(st.ents, w)
		}
		st.hist = append(st.hist, tkHist{ts: st.ts, ents: append([]tkEnt(nil), st.ents...)})
		in.sch.wepoch++
		return iface{}
	})
	e.reg(terrPkg+".IsErrNotFound", func(in *interp, fr *frame, a []value) value {
		return in.ctx.Bool(in.errorsIs(fr, a[0].(iface), in.sentinel(terrPkg, "ErrNotExist").(iface)))
	})
	e.reg(terrPkg+".IsErrWriteConflict", func(in *interp, fr *frame, a []value) value {
		err := a[0].(iface)
		for err.t != nil {
			if o, ok := err.v.(*opaque); ok && o.data != nil && o.data["writeConflict"] != nil {
				return in.ctx.T
			}
			err = in.unwrap(fr, err).(iface)
		}
		return in.ctx.F
	})
	snapOf := func(a []value) *tkSnap { return (*a[0].(*value)).(*tkSnap) }
	mkIter := func(in *interp, it *tkIter) value {
		it.fetch(in)
		return tuple{iface{t: in.eng.opaqueType("tikv.iterator"), v: it}, iface{}}
	}
	e.reg("(*"+snapPkg+".KVSnapshot).Iter", func(in *interp, fr *frame, a []value) value {
		return mkIter(in, &tkIter{snap: snapOf(a), lo: bytesOf(in, a[1]), hi: bytesOf(in, a[2])})
	})
	e.reg("(*"+snapPkg+".KVSnapshot).IterReverse", func(in *interp, fr *frame, a []value) value {
		return mkIter(in, &tkIter{snap: snapOf(a), reverse: true, hi: bytesOf(in, a[1])})
	})
	_ = types.Typ
}
