package exec

import (
	"fmt"
	"sort"
)

// Happens-before race monitor (vector clocks). Edges: go → child start, mutex unlock → lock,
// atomic op on a cell → later atomic op on the same cell, channel send → receive,
// close → receive-of-closed, WaitGroup.Done → Wait, Once.

type vclock []uint32

func (a vclock) get(i int) uint32 {
	if i < len(a) {
		return a[i]
	}
	return 0
}

func (a vclock) copy() vclock { return append(vclock(nil), a...) }

func (a *vclock) set(i int, v uint32) {
	for len(*a) <= i {
		*a = append(*a, 0)
	}
	(*a)[i] = v
}

func (a *vclock) join(b vclock) {
	for i, v := range b {
		if v > a.get(i) {
			a.set(i, v)
		}
	}
}

// leq reports whether epoch (tid,clk) happens-before-or-equals clock b.
func epochLeq(tid int, clk uint32, b vclock) bool { return clk <= b.get(tid) }

type shadow struct {
	wTid   int
	wClk   uint32
	wWhere string
	wAtom  bool
	rClks  vclock // per-thread clock of last read
	rWhere map[int]string
}

type raceMon struct {
	in      *interp
	cells   map[*value]*shadow
	syncs   map[interface{}]*vclock // release clocks of sync objects (mutex, atomic cell, wg…)
	reports []string
	seen    map[string]bool
	off     int // >0: accesses are not monitored (engine-internal bookkeeping)
}

func newRaceMon(in *interp) *raceMon {
	return &raceMon{in: in, cells: map[*value]*shadow{}, syncs: map[interface{}]*vclock{}, seen: map[string]bool{}}
}

func (m *raceMon) tick(t *thread) {
	t.vc.set(t.id, t.vc.get(t.id)+1)
}

func (m *raceMon) onSpawn(parent, child *thread) {
	if parent != nil {
		child.vc = parent.vc.copy()
		m.tick(parent)
	}
	child.vc.set(child.id, 1)
}

func (m *raceMon) where() string {
	// innermost kubebrain frame of the current thread is not tracked here; callers pass via curWhere
	return m.in.whereNow()
}

func (m *raceMon) report(kind string, p *value, a, b string) {
	if a > b {
		a, b = b, a
	}
	key := kind + "|" + a + "|" + b
	if m.seen[key] {
		return
	}
	m.seen[key] = true
	m.reports = append(m.reports, fmt.Sprintf("%s: %s <-> %s", kind, a, b))
	sort.Strings(m.reports)
}

func (m *raceMon) read(t *thread, p *value, atomic bool) {
	if t == nil || m.off > 0 {
		return
	}
	s := m.cells[p]
	if s == nil {
		s = &shadow{wTid: -1}
		m.cells[p] = s
	}
	if s.wTid >= 0 && s.wTid != t.id && !(atomic && s.wAtom) && !epochLeq(s.wTid, s.wClk, t.vc) {
		m.report("read-after-write race", p, m.where(), s.wWhere)
	}
	if !atomic {
		s.rClks.set(t.id, t.vc.get(t.id))
		if s.rWhere == nil {
			s.rWhere = map[int]string{}
		}
		s.rWhere[t.id] = m.where()
	}
}

func (m *raceMon) write(t *thread, p *value, atomic bool) {
	if t == nil || m.off > 0 {
		return
	}
	s := m.cells[p]
	if s == nil {
		s = &shadow{wTid: -1}
		m.cells[p] = s
	}
	if s.wTid >= 0 && s.wTid != t.id && !(atomic && s.wAtom) && !epochLeq(s.wTid, s.wClk, t.vc) {
		m.report("write-after-write race", p, m.where(), s.wWhere)
	}
	for tid, clk := range s.rClks {
		if tid != t.id && clk > 0 && !epochLeq(tid, clk, t.vc) {
			m.report("write-after-read race", p, m.where(), s.rWhere[tid])
		}
	}
	s.wTid, s.wClk, s.wWhere, s.wAtom = t.id, t.vc.get(t.id), m.where(), atomic
	s.rClks = nil
}

// acquire/release on an arbitrary sync object key.
func (m *raceMon) acquire(t *thread, key interface{}) {
	if c := m.syncs[key]; c != nil {
		t.vc.join(*c)
	}
}

func (m *raceMon) release(t *thread, key interface{}) {
	c := m.syncs[key]
	if c == nil {
		c = &vclock{}
		m.syncs[key] = c
	}
	c.join(t.vc)
	m.tick(t)
}

type chanSlot struct {
	ch *channel
}

func (m *raceMon) chanSend(t *thread, ch *channel) {
	ch.vcSend = append(ch.vcSend, t.vc.copy())
	m.tick(t)
}

func (m *raceMon) chanRecv(t *thread, ch *channel) {
	if len(ch.vcSend) > 0 {
		t.vc.join(ch.vcSend[0])
		ch.vcSend = ch.vcSend[1:]
	}
}

func (m *raceMon) chanClose(t *thread, ch *channel) {
	ch.vcClose = t.vc.copy()
	m.tick(t)
}

func (m *raceMon) chanRecvClosed(t *thread, ch *channel) {
	t.vc.join(ch.vcClose)
}
