// gosym: symbolic execution of Go SSA harnesses against /repo's current sources.
package main

import (
	"encoding/json"
	"flag"
	"fmt"
	"os"
	"path/filepath"
	"runtime/debug"
	"runtime/pprof"
	"sort"
	"strconv"
	"strings"
	"time"

	"gosym/exec"
)

type multi []string

func (m *multi) String() string     { return strings.Join(*m, ",") }
func (m *multi) Set(s string) error { *m = append(*m, s); return nil }

func main() {
	repo := flag.String("repo", "/repo", "repository under check")
	hdir := flag.String("harness", "/verif/harness", "harness tree overlaid onto the repository")
	tags := flag.String("tags", "verif", "build tags")
	out := flag.String("out", "", "write JSON report here")
	var runs, params multi
	flag.Var(&runs, "run", "harness: <pkgpath>.<Func> (repeatable; pkgpath relative to the module)")
	flag.Var(&params, "param", "k=v (repeatable)")
	workers := flag.Int("workers", 8, "parallel workers")
	solver := flag.String("solver", "z3", "z3 | z3-new | cvc5")
	timeout := flag.Int("qtimeout", 20000, "per-query timeout (ms)")
	loop := flag.Int("loop", 64, "loop bound")
	steps := flag.Int64("steps", 5_000_000, "step budget per run")
	maxviol := flag.Int("maxviol", 8, "stop after this many distinct violations")
	maxpaths := flag.Int("maxruns", 2_000_000, "stop after this many runs")
	trace := flag.Bool("trace", false, "trace instructions")
	race := flag.Bool("race", false, "happens-before race monitor")
	deadline := flag.Duration("deadline", 0, "wall-clock budget for each harness")
	slog := flag.String("solverlog", "", "transcript of worker 0's solver")
	list := flag.Bool("list", false, "list harness functions")
	patterns := flag.String("patterns", "./pkg/...,./cmd/...", "packages to load")
	prefix := flag.String("prefix", "", "comma-separated decision prefix to start from")
	cpuprof := flag.String("cpuprofile", "", "write CPU profile")
	memlimit := flag.Int("memlimit", 6144, "soft heap limit (MiB): the collector works harder instead of growing past it")
	flag.Parse()
	debug.SetGCPercent(1000)
	debug.SetMemoryLimit(int64(*memlimit) << 20)
	if *cpuprof != "" {
		f, _ := os.Create(*cpuprof)
		pprof.StartCPUProfile(f)
		defer pprof.StopCPUProfile()
	}

	overlay := map[string][]byte{}
	filepath.Walk(*hdir, func(p string, info os.FileInfo, err error) error {
		if err != nil || info.IsDir() || !strings.HasSuffix(p, ".go") {
			return nil
		}
		rel, _ := filepath.Rel(*hdir, p)
		b, err := os.ReadFile(p)
		if err == nil {
			overlay[filepath.Join(*repo, rel)] = b
		}
		return nil
	})
	eng, err := exec.Load(*repo, overlay, *tags, strings.Split(*patterns, ","))
	if err != nil {
		fmt.Println("ERROR load:", err)
		os.Exit(2)
	}
	if *list {
		for _, f := range eng.Harnesses("Verif") {
			fmt.Println(f.String())
		}
		return
	}
	pm := map[string]int{}
	for _, p := range params {
		kv := strings.SplitN(p, "=", 2)
		if len(kv) == 2 {
			n, _ := strconv.Atoi(kv[1])
			pm[kv[0]] = n
		}
	}
	var reports []*exec.Report
	code := 0
	for _, r := range runs {
		i := strings.LastIndex(r, ".")
		pkg, fn := eng.ModPath+"/"+r[:i], r[i+1:]
		f := eng.FindFunc(pkg, fn)
		if f == nil {
			fmt.Printf("ERROR harness %s not found\n", r)
			os.Exit(2)
		}
		cfg := exec.Config{Workers: *workers, Solver: *solver, TimeoutMs: *timeout, LoopBound: *loop, StepBudget: *steps,
			MaxViolations: *maxviol, MaxPaths: *maxpaths, Trace: *trace, Race: *race, Params: pm, SolverLog: *slog, SampleModels: 3}
		if *prefix != "" {
			for _, x := range strings.Split(*prefix, ",") {
				n, _ := strconv.ParseInt(strings.TrimSpace(x), 10, 64)
				cfg.Prefix = append(cfg.Prefix, n)
			}
		}
		if *deadline > 0 {
			cfg.Deadline = time.Now().Add(*deadline)
		}
		rep := eng.Explore(f, cfg)
		rep.EmitSites = eng.EmitSites()
		reports = append(reports, rep)
		fmt.Printf("%s: runs=%d paths=%d pruned=%d nontrivial=%d decisions=%d queries=%d (sat %d unsat %d unknown %d) solver=%.1fs wall=%.1fs violations=%d inconclusive=%d errors=%d\n",
			r, rep.Runs, rep.Paths, rep.Pruned, rep.NonTrivial, rep.Decisions, rep.Queries, rep.QSat, rep.QUnsat, rep.QUnknown,
			rep.SolverTime.Seconds(), rep.Wall.Seconds(), len(rep.Violations), len(rep.Inconclusive), len(rep.Errors))
		var cv []string
		for c, n := range rep.Covers {
			cv = append(cv, fmt.Sprintf("%s=%d", c, n))
		}
		sort.Strings(cv)
		if len(cv) > 0 {
			fmt.Println("  covers:", strings.Join(cv, " "))
		}
		for _, v := range rep.Violations {
			fmt.Printf("  VIOL %s %s %s findings=%v\n", v.Kind, v.Label, v.Msg, v.Findings)
			code = 1
			if len(v.Stack) > 0 {
				fmt.Println("    stack:", strings.Join(v.Stack, " <- "))
			}
		}
		for _, m := range rep.Inconclusive {
			fmt.Println("  INCONCLUSIVE", m)
			if code == 0 {
				code = 2
			}
		}
		for _, m := range rep.Errors {
			fmt.Println("  ERROR", m)
			code = 2
		}
		for _, m := range rep.Races {
			fmt.Println("  RACE", m)
		}
		if rep.Truncated {
			fmt.Println("  TRUNCATED (run/time budget reached with work left)")
		}
	}
	if *out != "" {
		b, _ := json.MarshalIndent(map[string]interface{}{"load_s": eng.LoadTime.Seconds(), "reports": reports}, "", " ")
		os.WriteFile(*out, b, 0o644)
	}
	if *cpuprof != "" {
		pprof.StopCPUProfile()
	}
	os.Exit(code)
}
